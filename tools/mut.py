#!/usr/bin/python3
"""Self-validation helper: apply a catalogue mutant (or a patch file) to /repo,
run checks, always restore /repo.

  tools/mut.py run <mutant-id|patch.diff> [C06 C02 ...] [--tier quick] [--tests]
  tools/mut.py list
"""
import os
import subprocess
import sys

HERE = os.path.dirname(os.path.dirname(os.path.abspath(__file__)))
sys.path.insert(0, os.path.join(HERE, "tools"))
import mutants  # noqa: E402

REPO = "/repo"


def sh(cmd, **kw):
    return subprocess.run(cmd, shell=isinstance(cmd, str), **kw)


def clean():
    st = subprocess.run(["git", "-C", REPO, "status", "--porcelain"], stdout=subprocess.PIPE).stdout.decode()
    return st.strip() == ""


def apply_mutant(mu):
    edits = [(mu["file"], mu["old"], mu["new"])] + list(mu.get("extra", []))
    for path, old, new in edits:
        p = os.path.join(REPO, path)
        s = open(p).read()
        if s.count(old) != 1:
            raise SystemExit("mutant %s: pattern occurs %d times in %s" % (mu["id"], s.count(old), path))
        open(p, "w").write(s.replace(old, new))


def main(argv):
    if argv[1] == "list":
        for mu in mutants.M:
            print(mu["id"], mu["props"])
        return 0
    target = argv[2]
    rest = [a for a in argv[3:] if not a.startswith("--")]
    tier = "quick"
    if "--tier" in argv:
        tier = argv[argv.index("--tier") + 1]
        rest = [a for a in rest if a != tier]
    if not clean():
        raise SystemExit("/repo working tree is not clean")
    try:
        if os.path.exists(target):
            r = sh(["git", "-C", REPO, "apply", os.path.abspath(target)])
            if r.returncode:
                raise SystemExit("patch does not apply")
            props = rest
        else:
            mu = [x for x in mutants.M if x["id"] == target]
            if not mu:
                raise SystemExit("unknown mutant " + target)
            apply_mutant(mu[0])
            props = rest or mu[0]["props"]
        if "--tests" in argv:
            r = sh("cd /repo && cargo test --workspace --no-fail-fast --offline 2>&1 | grep -E '^test result|FAILED|error' | head -5", stdout=subprocess.PIPE)
            print("TESTS:", r.stdout.decode().strip().replace("\n", " | "))
        for p in props:
            r = sh([os.path.join(HERE, "check"), p, "--tier", tier], stdout=subprocess.PIPE, stderr=subprocess.STDOUT)
            lines = r.stdout.decode().strip().split("\n")
            verdict = {0: "MISSED", 1: "CAUGHT", 2: "INCONCLUSIVE"}.get(r.returncode, "?%d" % r.returncode)
            print("%-28s %-4s %-12s %s" % (target[-28:], p, verdict, " / ".join(l for l in lines if "VIOLATION" not in l)[-260:]))
    finally:
        sh(["git", "-C", REPO, "checkout", "--", "."])
        sh(["git", "-C", REPO, "clean", "-fdq"])
        # leave .work/ binaries consistent with the restored tree
        sys.path.insert(0, HERE)
        from seedverif import core
        core.build(plain=True, verif=True)
    return 0


if __name__ == "__main__":
    sys.exit(main(sys.argv))
