#!/usr/bin/python3
"""Confirm and evaluate a breaking change written by a sub-agent.

  tools/seedeval.py C07 1 [--checks C07,C01] [--tier quick] [--slot N]

1. in a private scratch worktree (/tmp/wt/confirm<N>): apply the diff to a clean HEAD,
   run the repository's 339 tests (must pass), run the demonstration on the changed
   build and on the unchanged build (must differ);
2. apply the diff to /repo, run the property's check(s), restore /repo, rebuild;
3. store patch, demonstration and meta.json under /verif/seeded/<id>-<k>/.
Nothing is ever committed to /repo.
"""
import json
import os
import shutil
import subprocess
import sys

HERE = os.path.dirname(os.path.dirname(os.path.abspath(__file__)))
sys.path.insert(0, HERE)
from seedverif import core  # noqa: E402

REPO = "/repo"


def sh(cmd, **kw):
    return subprocess.run(cmd, shell=isinstance(cmd, str), stdout=subprocess.PIPE, stderr=subprocess.STDOUT, **kw)


def run_demo(binary, demo, cwd):
    try:
        p = subprocess.run([binary, os.path.basename(demo)], cwd=cwd, env={}, stdin=subprocess.DEVNULL, stdout=subprocess.PIPE, stderr=subprocess.PIPE, timeout=20)
    except subprocess.TimeoutExpired:
        return {"exit": "timeout (20 s)", "stdout": "", "stderr": ""}
    return {"exit": p.returncode, "stdout": p.stdout.decode("utf-8", "replace"), "stderr": p.stderr.decode("utf-8", "replace")}


def main(argv):
    prop, k = argv[1], argv[2]
    checks = [prop]
    if "--checks" in argv:
        checks = argv[argv.index("--checks") + 1].split(",")
    tier = argv[argv.index("--tier") + 1] if "--tier" in argv else "quick"
    slot = argv[argv.index("--slot") + 1] if "--slot" in argv else "0"
    src_dir = "/tmp/wt/%s/_out" % prop
    diff = os.path.join(src_dir, "change%s.diff" % k)
    demo = os.path.join(src_dir, "demo%s.sd" % k)
    note = os.path.join(src_dir, "change%s.md" % k)
    if not os.path.exists(diff):
        print("no diff", diff)
        return 2
    if "--checks" in argv and argv[argv.index("--checks") + 1] == "auto":
        import re
        head = open(note).read()[:600] if os.path.exists(note) else ""
        m = re.search(r"BREAKS:\s*(.*)", head)
        checks = sorted(set(re.findall(r"C\d\d", m.group(1)))) if m else []
        if not checks:
            print("no BREAKS line in", note)
            return 2
    wt = "/tmp/wt/confirm%s" % slot
    if not os.path.isdir(wt):
        r = sh(["git", "-C", REPO, "worktree", "add", "-q", "--detach", wt, "HEAD"])
        if r.returncode:
            print(r.stdout.decode())
            return 2
    sh(["git", "-C", wt, "checkout", "--", "."])
    sh(["git", "-C", wt, "clean", "-fdq", "-e", "target"])
    meta = {"property": prop, "change": k, "source": "independent sub-agent given only the property text and a scratch worktree"}
    r = sh(["git", "-C", wt, "apply", "--whitespace=nowarn", diff])
    if r.returncode:
        print("diff does not apply:", r.stdout.decode()[-400:])
        return 2
    touched = sh(["git", "-C", wt, "diff", "--stat"]).stdout.decode()
    meta["files_touched"] = [l.split("|")[0].strip() for l in touched.split("\n") if "|" in l]
    if any("verif.rs" in f or f.startswith("tests/") for f in meta["files_touched"]):
        print("touches forbidden files", meta["files_touched"])
        return 2
    env = dict(os.environ, CARGO_NET_OFFLINE="true")
    t = subprocess.run("cargo test --workspace --no-fail-fast --offline 2>&1 | grep -E '^test result|error(\\[|:)' | head -8", shell=True, cwd=wt, env=env,
                       stdout=subprocess.PIPE)
    lines = t.stdout.decode().strip().split("\n")
    meta["repo_tests_with_change"] = lines
    tests_ok = len([l for l in lines if l.startswith("test result: ok")]) == 2 and not any("error" in l for l in lines)
    passed = sum(int(l.split(" passed")[0].split()[-1]) for l in lines if l.startswith("test result:"))
    meta["repo_tests_pass"] = bool(tests_ok and passed == 339)
    core.build(plain=True, verif=False)
    demo_diff = None
    if os.path.exists(demo):
        shutil.copy(demo, os.path.join(wt, "_demo.sd"))
        bad = run_demo(os.path.join(wt, "target", "debug", "seed"), os.path.join(wt, "_demo.sd"), wt)
        good = run_demo(core.BIN_PLAIN, os.path.join(wt, "_demo.sd"), wt)
        os.unlink(os.path.join(wt, "_demo.sd"))
        demo_diff = bad != good
        meta["demo_unchanged_build"] = good
        meta["demo_changed_build"] = bad
    meta["demo_distinguishes"] = demo_diff
    sh(["git", "-C", wt, "checkout", "--", "."])
    # now our checks against the change, applied to /repo itself
    st = sh(["git", "-C", REPO, "status", "--porcelain"]).stdout.decode().strip()
    if st:
        print("/repo not clean:", st)
        return 2
    results = {}
    try:
        r = sh(["git", "-C", REPO, "apply", "--whitespace=nowarn", diff])
        if r.returncode:
            print("diff does not apply to /repo")
            return 2
        for c in checks:
            r = sh([os.path.join(HERE, "check"), c, "--tier", tier])
            out = r.stdout.decode()
            verdict = {0: "MISSED", 1: "CAUGHT", 2: "INCONCLUSIVE"}.get(r.returncode, "?")
            sigs = [l.strip() for l in out.split("\n") if l.startswith("  (")][:4]
            results[c] = {"verdict": verdict, "signatures": sigs}
    finally:
        sh(["git", "-C", REPO, "checkout", "--", "."])
        sh(["git", "-C", REPO, "clean", "-fdq"])
        core.build(plain=True, verif=True)
    meta["checks"] = results
    meta["what_we_ran"] = ["cargo test --workspace --no-fail-fast --offline (scratch worktree, change applied)",
                           "demo on changed build vs unchanged build"] + ["./check %s --tier %s (change applied to /repo, then reverted)" % (c, tier) for c in checks]
    if os.path.exists(note):
        meta["agent_note"] = open(note).read()[:3000]
    out_dir = os.path.join(HERE, "seeded", "%s-%s" % (prop, k))
    os.makedirs(out_dir, exist_ok=True)
    shutil.copy(diff, os.path.join(out_dir, "patch.diff"))
    if os.path.exists(demo):
        shutil.copy(demo, os.path.join(out_dir, "demo.sd"))
    json.dump(meta, open(os.path.join(out_dir, "meta.json"), "w"), indent=1)
    print("%s-%s tests_pass=%s demo_distinguishes=%s %s" % (prop, k, meta["repo_tests_pass"], demo_diff,
                                                           " ".join("%s=%s" % (c, v["verdict"]) for c, v in results.items())))
    for c, v in results.items():
        for s in v["signatures"][:2]:
            print("    ", s[:220])
    return 0


if __name__ == "__main__":
    sys.exit(main(sys.argv))
