/* LD_PRELOAD interposer: logs the name of every environment variable the process asks
 * for through getenv()/secure_getenv() to the file named by SEEDVERIF_GENV_LOG (looked up
 * directly in environ, so the lookup itself is not logged). */
#define _GNU_SOURCE
#include <dlfcn.h>
#include <fcntl.h>
#include <string.h>
#include <unistd.h>

extern char **environ;

static const char *log_path(void) {
    static const char key[] = "SEEDVERIF_GENV_LOG=";
    for (char **e = environ; e && *e; e++)
        if (strncmp(*e, key, sizeof(key) - 1) == 0)
            return *e + sizeof(key) - 1;
    return 0;
}

static void note(const char *name) {
    const char *p = log_path();
    if (!p || !name)
        return;
    int fd = open(p, O_WRONLY | O_CREAT | O_APPEND, 0644);
    if (fd < 0)
        return;
    (void)!write(fd, name, strlen(name));
    (void)!write(fd, "\n", 1);
    close(fd);
}

char *getenv(const char *name) {
    static char *(*real)(const char *);
    if (!real)
        real = (char *(*)(const char *))dlsym(RTLD_NEXT, "getenv");
    note(name);
    return real ? real(name) : 0;
}

char *secure_getenv(const char *name) {
    static char *(*real)(const char *);
    if (!real)
        real = (char *(*)(const char *))dlsym(RTLD_NEXT, "secure_getenv");
    note(name);
    return real ? real(name) : 0;
}
