#!/usr/bin/python3
"""Print the DESIGN.md table rows for stored sub-agent changes:  tools/seeded_table.py 7 8   (change numbers)  or  XA YB (prefixes)."""
import glob
import json
import os
import re
import sys

HERE = os.path.dirname(os.path.dirname(os.path.abspath(__file__)))
sel = sys.argv[1:]
rows = []
for d in sorted(glob.glob(os.path.join(HERE, "seeded", "*-*"))):
    name = os.path.basename(d)
    pre, k = name.rsplit("-", 1)
    if sel and not (k in sel or pre in sel):
        continue
    m = json.load(open(os.path.join(d, "meta.json")))
    note = m.get("agent_note", "")
    title = next((l for l in note.split("\n") if l.strip()), "").lstrip("# ").strip()
    title = re.sub(r"^(C\d+ )?[Cc]hange \d+:?\s*", "", title)
    verdict = " ".join("%s=%s" % (c, v["verdict"]) for c, v in m.get("checks", {}).items())
    rows.append((pre, int(k) if k.isdigit() else 0, "| %s | %s | %s | %s | %s |" % (name, ", ".join(m.get("files_touched", [])), "yes" if m.get("repo_tests_pass") else "NO", verdict, title[:150].replace("|", "/"))))
print("| Change | Files | 339 tests pass | Verdict (quick) | Summary |\n|---|---|---|---|---|")
for _, _, r in sorted(rows):
    print(r)
