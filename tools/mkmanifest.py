#!/usr/bin/python3
"""Regenerate MANIFEST.json from the table below (kept in one place so the
manifest is always valid and consistent with what exists)."""
import json
import os
import subprocess

HERE = os.path.dirname(os.path.dirname(os.path.abspath(__file__)))
props = [json.loads(l) for l in open(os.path.join(HERE, "properties.jsonl"))]

# id -> (technique, level text, level note, design ref)
CHECKS = {}


def add(pid, technique, text, note, ref):
    CHECKS[pid] = (technique, text, note, ref)


exec(open(os.path.join(HERE, "tools", "manifest_table.py")).read())

hook_commits = subprocess.run(["git", "-C", "/repo", "log", "--format=%H", "--grep=^verif hooks"],
                              stdout=subprocess.PIPE).stdout.decode().split()

m = {
    "version": 1,
    "setup_cmd": "cd /verif && /usr/bin/python3 tools/setup.py",
    "hooks": {
        "guard": "cargo feature `verif` (Cargo.toml [features] verif = []; all hook code under #[cfg(feature = \"verif\")])",
        "enable": "cargo build --offline --features verif --manifest-path /repo/Cargo.toml --target-dir /verif/.work/target-verif",
        "baseline_off_cmd": "cd /repo && cargo test --workspace --no-fail-fast --offline",
        "source_commits": hook_commits,
        "add_only": True,
    },
    "engines": [
        {"name": "seedverif", "path": "/verif/seedverif", "serves_properties": sorted(CHECKS),
         "kind_free_text": "python3 stdlib harness: AST generators + printer with ground-truth positions, reference-model monitor, "
                           "law/metamorphic oracles, offline checkers over hook event logs, process monitors; observes the real `seed` CLI"},
    ],
    "checks": [],
    "not_applicable": [],
    "notes": "All checks are runtime monitors over executions of the real interpreter built from /repo's working tree "
             "(dev profile, feature verif for hook dumps/event log; plain build for parity and process monitors). "
             "Exit 0 held / 1 VIOLATION / 2 inconclusive. See DESIGN.md.",
}
for p in props:
    pid = p["id"]
    if pid in CHECKS:
        tech, text, note, ref = CHECKS[pid]
        text += (" Each run first drives the size ladders, rare-value programs and hosted operations of seedverif/scale.py that concern this property "
                 "(sizes 0..40 densely, then 2^k-1, 2^k, 2^k+1 up to 2049 elements, depth 257, 70000 lines/columns/bytes; DESIGN.md 11.8) through the reference model.")
        m["checks"].append({
            "property_id": pid,
            "quick_cmd": "./check %s --tier quick" % pid,
            "thorough_cmd": "./check %s --tier thorough" % pid,
            "evidence_file": "/verif/evidence/%s.json" % pid,
            "replay_cmd_template": "./check %s --replay {path}" % pid,
            "engine": "seedverif",
            "level_claimed": {"category": "exploration", "text": text, "design_ref": ref},
            "level_note": note,
            "technique": tech,
        })
    else:
        m["not_applicable"].append({"property_id": pid, "reason": "check not built yet (work in progress; see DESIGN.md section 10)"})
json.dump(m, open(os.path.join(HERE, "MANIFEST.json"), "w"), indent=1)
print("checks:", len(m["checks"]), "pending:", len(m["not_applicable"]))
