MODEL_NOTE = ("Trusted: the reference model seedverif/model.py (an independent reading of docs/features.md and the property "
              "statements), the printer's token map, Python big integers; the dev-profile build of /repo's working tree. "
              "Only the executions actually produced are decided.")

add("C01", "runtime monitoring: reference-model differential over generated programs + context-embedding metamorphic pairs at the CLI boundary",
    "Held on K generated terminating programs (thousands per quick run, 10^5 thorough) covering all documented constructs and their pairings: "
    "stdout bytes and exit class equal the reference model's, and re-running each snippet inside neutral contexts (block, if, loops, functions, methods; depth<=3) leaves output unchanged. "
    "Sampling of an infinite program space: right level for a whole-language conformance statement.",
    MODEL_NOTE, "DESIGN.md section 6 C01")
add("C06", "runtime monitoring: exhaustive boundary grid + random 64-bit operands judged by a big-integer oracle and in-language laws; evaluator hook tallies the cells reached",
    "Exhaustive over a 28x28 grid of boundary values for every arithmetic/comparison operator in plain and all op-assign forms (every failing cell in its own process with diagnostic position/operands checked), plus random pairs aimed at the overflow boundaries, division law, order laws, ranges, literals.",
    "Trusted: Python big-integer arithmetic and the statement's rounding rules; positions from the printer's token map.", "DESIGN.md section 6 C06")
add("C16", "runtime monitoring: exhaustive operator x kind x kind matrix and typed-context x kind matrix judged by a table transcribed from the statement",
    "Exhaustive finite matrix (15 operators x 64 ordered kind pairs, plain and three op-assign target forms, ~35 typed contexts x 8 kinds): accept/reject, operator position and 'operator, lhs type, rhs type' naming checked per cell; the evaluator hook confirms every cell reached the operator dispatch.",
    "Trusted: the acceptance table in checks/c16.py; ->type() probes printed by the same run provide the type names.", "DESIGN.md section 6 C16")
