#!/usr/bin/python3
"""setup_cmd: cold-build both binaries from /repo offline and compile the getenv interposer."""
import os
import subprocess
import sys

HERE = os.path.dirname(os.path.dirname(os.path.abspath(__file__)))
sys.path.insert(0, HERE)
from seedverif import core  # noqa: E402

core.build(plain=True, verif=True)
src = os.path.join(HERE, "tools", "genv.c")
if os.path.exists(src):
    os.makedirs(core.WORK, exist_ok=True)
    subprocess.check_call(["cc", "-shared", "-fPIC", "-O1", "-o", os.path.join(core.WORK, "genv.so"), src, "-ldl"])
print("setup ok")
