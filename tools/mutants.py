"""Hand-written mutant catalogue (DESIGN.md section 8) used for self-validation.
Each entry: id, properties expected to catch it, file, old text, new text."""

M = []


def m(mid, props, path, old, new):
    M.append({"id": mid, "props": props, "file": path, "old": old, "new": new})


EV = "src/eval/mod.rs"
BI = "src/eval/bind.rs"
LX = "src/lexer/mod.rs"
SC = "src/lexer/scanner.rs"
PA = "src/parser.lalrpop"
MA = "src/main.rs"
FN = "src/builtins/fns.rs"
TF = "src/builtins/type_functions.rs"
SP = "src/eval/scope.rs"

# C06
m("mul_wrapping", ["C06"], EV, "a.checked_mul(*b)", "Some(a.wrapping_mul(*b))")
m("rem_euclid", ["C06"], EV, "Ok(Value::Int(a.wrapping_rem(*b)))", "Ok(Value::Int(a.wrapping_rem_euclid(*b)))")
m("range_inclusive", ["C06", "C01"], EV, "(start..end)\n                    .map(value::new_int)", "(start..=end)\n                    .map(value::new_int)")
m("sub_unchecked", ["C06"], EV, "if let Some(v) = a.checked_sub(*b) {", "if let Some(v) = Some(a.wrapping_sub(*b)) {")
m("lte_is_lt", ["C06"], EV, "BinaryOp::Lte => a <= b,", "BinaryOp::Lte => a < b,")
# C08
m("mod_to_sum_tier", ["C08"], PA, '    "*" => BinaryOp::Mul,\n    "/" => BinaryOp::Div,\n    "%" => BinaryOp::Mod,\n', '    "*" => BinaryOp::Mul,\n    "/" => BinaryOp::Div,\n')
# (the removed `%` production is re-added on the + tier)
M[-1]["extra"] = [(PA, '    "+" => BinaryOp::Sum,\n    "-" => BinaryOp::Sub,\n};', '    "+" => BinaryOp::Sum,\n    "-" => BinaryOp::Sub,\n    "%" => BinaryOp::Mod,\n};')]
m("refeq_to_and_tier", ["C08"], PA, '    "===" => BinaryOp::RefEq,\n    "!==" => BinaryOp::RefNe,\n};', '};')
M[-1]["extra"] = [(PA, '    "&&" => BinaryOp::And,\n    "||" => BinaryOp::Or,\n};', '    "&&" => BinaryOp::And,\n    "||" => BinaryOp::Or,\n    "===" => BinaryOp::RefEq,\n    "!==" => BinaryOp::RefNe,\n};')]
# C16
m("sum_int_string", ["C16"], EV, "                (Value::Str(a), Value::Str(b)) => {\n                    Ok(Value::Str([a.clone(), b.clone()].concat()))\n                },",
  "                (Value::Str(a), Value::Str(b)) => {\n                    Ok(Value::Str([a.clone(), b.clone()].concat()))\n                },\n                (Value::Int(a), Value::Str(b)) => {\n                    Ok(Value::Str([a.to_string().into_bytes(), b.clone()].concat()))\n                },")
m("swap_types_in_msg", ["C16"], "src/eval/error.rs", "        op_symbol(op),\n        render_type(lhs),\n        render_type(rhs),\n    ))]\n    InvalidOpTypes", "        op_symbol(op),\n        render_type(rhs),\n        render_type(lhs),\n    ))]\n    InvalidOpTypes")
m("type_name_str", ["C16"], TF, '            Value::Str(_) => "string",', '            Value::Str(_) => "str",')
m("refeq_builtin", ["C16"], EV, "        (Value::Func(a), Value::Func(b)) => {\n            Some(value::ref_eq(a, b))\n        },", "        (Value::Func(a), Value::Func(b)) => {\n            Some(value::ref_eq(a, b))\n        },\n\n        (Value::BuiltinFunc{..}, Value::BuiltinFunc{..}) => {\n            Some(true)\n        },")
# C01 / C07
m("while_return_as_break", ["C07", "C01"], EV, "                    Escape::Continue{..} => continue,\n                    Escape::Return{..} => return Ok(escape),\n                }\n            }\n        },\n\n        Stmt::For", "                    Escape::Continue{..} => continue,\n                    Escape::Return{..} => break,\n                }\n            }\n        },\n\n        Stmt::For")
m("block_swallows", ["C07", "C01"], EV, "            let v = eval_stmts_in_new_scope(context, scopes, block)\n                .context(EvalBlockFailed)?;\n\n            return Ok(v);", "            eval_stmts_in_new_scope(context, scopes, block)\n                .context(EvalBlockFailed)?;")
m("else_also_runs", ["C07", "C01"], EV, "                    let v = eval_stmts_in_new_scope(context, scopes, stmts)\n                        .context(EvalIfStatementsFailed)?;\n\n                    return Ok(v);", "                    let v = eval_stmts_in_new_scope(context, scopes, stmts)\n                        .context(EvalIfStatementsFailed)?;\n\n                    if let Escape::None = v { break; }\n                    return Ok(v);")
# C04
m("scope_outermost_first", ["C04", "C01"], SP, "    pub fn get(&self, name: &String) -> Option<SourcedValue> {\n        for scope in self.0.iter().rev() {", "    pub fn get(&self, name: &String) -> Option<SourcedValue> {\n        for scope in self.0.iter() {")
m("closure_uses_caller_chain", ["C04", "C01"], EV, "                    &mut closure,\n                    bindings,", "                    &mut scopes.clone(),\n                    bindings,")
# C05
m("concat_in_place", ["C05", "C01"], EV, "                    let a = lock_deref!(a).clone();\n                    let b = lock_deref!(b).clone();\n\n                    Ok(Value::List(Arc::new(Mutex::new([a, b].concat()))))", "                    let b_items = lock_deref!(b).clone();\n                    if !Arc::ptr_eq(a, b) { lock_deref!(a).extend(b_items.clone()); }\n                    let a = lock_deref!(a).clone();\n\n                    Ok(Value::List(Arc::new(Mutex::new(a))))")
m("range_read_alias_full", ["C05"], EV, "    if let Some(vs) = lock_deref!(list).get(*start .. *end) {\n        return Ok(value::new_list(vs.to_vec()));\n    }", "    if *start == 0 && *end == lock_deref!(list).len() {\n        return Ok(value::new_val_ref_with_no_source(Value::List(list.clone())));\n    }\n    if let Some(vs) = lock_deref!(list).get(*start .. *end) {\n        return Ok(value::new_list(vs.to_vec()));\n    }")
# C09
m("cont_drop_mod", ["C09"], LX, "                    Token::Mod |\n", "")
m("cont_add_dotdot", ["C09"], LX, "                    Token::Dot |\n", "                    Token::Dot |\n                    Token::DotDot |\n")
# C10
m("eq_no_len_check", ["C10"], EV, "            if xs.len() != ys.len() {\n                return Ok(false);\n            }\n\n            for (i, x) in xs.iter().enumerate() {\n                let y = &ys[i];", "            for (i, x) in xs.iter().enumerate() {\n                if i >= ys.len() { break; }\n                let y = &ys[i];")
m("ne_returns_eq", ["C10", "C01"], EV, "                        BinaryOp::Eq => Ok(Value::Bool(v)),\n                        _ => Ok(Value::Bool(!v)),", "                        BinaryOp::Eq => Ok(Value::Bool(v)),\n                        _ => Ok(Value::Bool(v)),")
# C11
m("range_read_end_exclusive_check", ["C11"], EV, "    if let Some(vs) = s.get(*start .. *end) {\n        return Ok(value::new_str(vs.to_vec()));\n    }", "    if *end < s.len() || *start == *end {\n    if let Some(vs) = s.get(*start .. *end) {\n        return Ok(value::new_str(vs.to_vec()));\n    }\n    }")
m("range_assign_end_ge", ["C11"], BI, "    } else if end > list_len {", "    } else if end >= list_len {")
# (`start >= list_len` instead of `>` is an equivalent mutant: start == len is rejected by the next check anyway)
m("omitted_start_one", ["C11"], EV, "    let start = maybe_start.get_or_insert(0);\n    let end = maybe_end.get_or_insert(lock_deref!(list).len());", "    let start = maybe_start.get_or_insert(1);\n    let end = maybe_end.get_or_insert(lock_deref!(list).len());")
# C12
m("prop_write_no_insert", ["C12"], BI, "                    lock_deref!(props).insert(name, rhs);\n\n                    Ok(())\n                },\n\n                value => {", "                    let _ = (name, rhs);\n\n                    Ok(())\n                },\n\n                value => {")
m("spread_first_wins", ["C12"], EV, "                                    for (name, value) in &lock_deref!(props) {\n                                        vals.insert(\n                                            name.to_string(),\n                                            value.clone(),\n                                        );", "                                    for (name, value) in &lock_deref!(props) {\n                                        vals.entry(name.to_string()).or_insert(\n                                            value.clone(),\n                                        );")
# C13
m("collect_off_by_one", ["C13"], BI, "                value::new_list(lock_deref!(rhs)[lhs_len-1 ..].to_vec())", "                value::new_list(lock_deref!(rhs)[lhs_len ..].to_vec())")
m("rest_keys_renamed_kept", ["C13"], BI, "                    .context(BindObjectPairFailed)?;\n\n                remaining_keys.remove(&prop_name);", "                    .context(BindObjectPairFailed)?;")
# C14
m("args_right_to_left", ["C14"], EV, "    let mut vals = vec![];\n\n    for item in items {", "    let mut vals = vec![];\n\n    for item in items.iter().rev() {")
m("return_drops_source", ["C14"], EV, "                    Escape::Return{value, ..} =>\n                        value,", "                    Escape::Return{value, ..} =>\n                        value::new_val_ref_with_no_source(value.v),")
# C15
m("escape_r_is_n", ["C15"], LX, "                        chars.push('\\r');", "                        chars.push('\\n');")
m("len_counts_chars", ["C15"], TF, "    let n: i64 = s.len().try_into()", "    let n: i64 = s.chars().count().try_into()")
# C17
m("peel_drop_ifcond", ["C17"], MA, "        EvalError::EvalIfConditionFailed{source} |\n", "")
m("stack_reversed", ["C17"], MA, "            st.stacktrace.push(format!(\"{p}:{line}:{col}: in '{f}'\"));", "            st.stacktrace.insert(0, format!(\"{p}:{line}:{col}: in '{f}'\"));")
# C18
m("tab_is_four", ["C18"], SC, "            } else {\n                self.col += 1;\n            }", "            } else if c == '\\t' {\n                self.col += 4;\n            } else {\n                self.col += 1;\n            }")
m("oploc_from_lhs", ["C18"], PA, "    <l_loc:@L> <l:ExprTier<Op, NextTier>>\n    <op_loc:@L> <op:Op>\n    <r_loc:@L> <r:NextTier> =>\n        RawExpr::BinaryOp{\n            op,\n            op_loc,", "    <l_loc:@L> <l:ExprTier<Op, NextTier>>\n    <op_loc:@L> <op:Op>\n    <r_loc:@L> <r:NextTier> =>\n        RawExpr::BinaryOp{\n            op,\n            op_loc: l_loc,")
# C19
m("print_insertion_order_hash", ["C19", "C13"], BI, "                    let new_rhs: BTreeMap<String, SourcedValue> =", "                    let new_rhs: BTreeMap<String, SourcedValue> =")
# C20
m("declare_overwrites", ["C20"], SP, "        if let Some((_, loc)) = cur_scope.get(name) {\n            return Err(*loc);\n        }", "        if let Some((_, loc)) = cur_scope.get(name) {\n            if name.len() > 3 { return Err(*loc); }\n        }")
m("underscore_declared", ["C20"], BI, "    if name == \"_\" {\n        return Ok(())\n    }", "    if name == \"_\" && op.is_some() {\n        return Ok(())\n    }")
# C02
m("str_index_unchecked", ["C02", "C11"], EV, "                        match s.get(index) {\n                            Some(v) => value::new_str(vec![*v]),", "                        match Some(&s[index]) {\n                            Some(v) => value::new_str(vec![*v]),")
# C03
m("lexer_unwrap_eof", ["C03"], LX, "        let char2 = self.scanner.peek_char()?;\n        self.scanner.next_char();\n\n        // Here we handle the matching of double-symbol tokens that don't have", "        let char2 = self.scanner.peek_char().unwrap();\n        self.scanner.next_char();\n\n        // Here we handle the matching of double-symbol tokens that don't have")
m("comment_swallows_newline", ["C09"], LX, "                while let Some(c_) = self.scanner.peek_char() {\n                    if c_ == '\\n' {\n                        break;\n                    }\n                    self.scanner.next_char();\n                }", "                while let Some(c_) = self.scanner.peek_char() {\n                    self.scanner.next_char();\n                    if c_ == '\\n' {\n                        break;\n                    }\n                }")
m("string_newline_no_line", ["C18"], LX, "                    } else {\n                        chars.push(c);\n                    }\n                },\n                StrScanState::Escape", "                    } else {\n                        if c == '\\n' { self.scanner.line_back(); }\n                        chars.push(c);\n                    }\n                },\n                StrScanState::Escape")
M[-1]["extra"] = [(SC, "    pub fn loc(&mut self) -> (usize, usize) {", "    pub fn line_back(&mut self) {\n        self.line -= 1;\n    }\n\n    pub fn loc(&mut self) -> (usize, usize) {")]
m("cr_resets_col", ["C18", "C03"], SC, "            if c == '\\n' {\n                self.line += 1;\n                self.col = 0;\n            } else {", "            if c == '\\n' {\n                self.line += 1;\n                self.col = 0;\n            } else if c == '\\r' {\n                self.col = 0;\n            } else {")
m("call_loc_from_args", ["C18"], PA, "    <loc:@L> <expr:ExprPrecedence5> \"(\" <args:ArgList> \")\" =>\n        RawExpr::Call{func: Box::new((expr, loc)), args},", "    <loc:@L> <expr:ExprPrecedence5> <l2:@L> \"(\" <args:ArgList> \")\" =>\n        RawExpr::Call{func: Box::new((expr, if args.len() > 2 { l2 } else { loc })), args},")
m("if_drops_escape", ["C07", "C01"], EV, "                    let v = eval_stmts_in_new_scope(context, scopes, stmts)\n                        .context(EvalIfStatementsFailed)?;\n\n                    return Ok(v);", "                    let v = eval_stmts_in_new_scope(context, scopes, stmts)\n                        .context(EvalIfStatementsFailed)?;\n\n                    if let Escape::Continue{..} = v { return Ok(Escape::None); }\n                    return Ok(v);")
m("for_continue_as_break", ["C07", "C01"], EV, "                match escape {\n                    Escape::None => {},\n                    Escape::Break{..} => break,\n                    Escape::Continue{..} => continue,\n                    Escape::Return{..} => return Ok(escape),\n                }\n            }\n        },\n\n        Stmt::Break", "                match escape {\n                    Escape::None => {},\n                    Escape::Break{..} => break,\n                    Escape::Continue{..} => break,\n                    Escape::Return{..} => return Ok(escape),\n                }\n            }\n        },\n\n        Stmt::Break")
m("else_branch_swallow_return", ["C07"], EV, "                let v = eval_stmts_in_new_scope(context, scopes, stmts)\n                    .context(EvalElseStatementsFailed)?;\n\n                return Ok(v);", "                let v = eval_stmts_in_new_scope(context, scopes, stmts)\n                    .context(EvalElseStatementsFailed)?;\n\n                if let Escape::Break{..} = v { return Ok(v); }")
m("eq_keys_from_rhs_only", ["C10"], EV, "            for (k, x) in &xs {\n                let y =\n                    if let Some(y) = ys.get(k) {\n                        y\n                    } else {\n                        return Ok(false);\n                    };", "            for (k, x) in &xs {\n                let y =\n                    if let Some(y) = ys.get(k) {\n                        y\n                    } else {\n                        continue;\n                    };")
m("eq_identity_shortcut_all", ["C10"], EV, "        (Value::Str(a), Value::Str(b)) =>\n            Ok(a == b),\n\n        (Value::List(xs), Value::List(ys)) => {", "        (Value::Str(a), Value::Str(b)) =>\n            Ok(a.len() == b.len() && (a.len() < 2 || a == b)),\n\n        (Value::List(xs), Value::List(ys)) => {")
m("eq_mismatch_false", ["C10", "C16"], EV, "        _ =>\n            Err((\n                String::new(),\n                error::render_type(lhs),\n                error::render_type(rhs),\n            )),\n    }\n}", "        (Value::Null, _) | (_, Value::Null) => Ok(false),\n        _ =>\n            Err((\n                String::new(),\n                error::render_type(lhs),\n                error::render_type(rhs),\n            )),\n    }\n}")
m("index_write_no_update", ["C12"], BI, "                    if let Some(slot) = lock_deref!(props).get_mut(&name) {\n                        binary_operation_assign(slot, rhs, op)\n                            .context(BinOpAssignObjectIndexFailed)?;\n\n                        return Ok(());\n                    }", "                    if op.is_some() {\n                    if let Some(slot) = lock_deref!(props).get_mut(&name) {\n                        binary_operation_assign(slot, rhs, op)\n                            .context(BinOpAssignObjectIndexFailed)?;\n\n                        return Ok(());\n                    }\n                    } else if name.is_empty() { return Ok(()); }")
m("for_object_reverse", ["C12", "C07"], EV, "            let pairs =\n                props\n                    .iter()\n                    .map(|(key, value)| {", "            let pairs =\n                props\n                    .iter()\n                    .rev()\n                    .map(|(key, value)| {")
m("shorthand_uses_outer", ["C12"], EV, "                                vals.insert(name.to_string(), v);", "                                vals.entry(name.to_string()).or_insert(v);")
m("list_item_drops_source", ["C14"], EV, "        if !item.is_spread {\n            vals.push(v);\n\n            continue;\n        }", "        if !item.is_spread {\n            vals.push(value::new_val_ref_with_no_source(v.v));\n\n            continue;\n        }")
m("assign_keeps_old_source", ["C14"], SP, "pub fn set(slot: &mut SourcedValue, v: SourcedValue) {\n    *slot = v;\n}", "pub fn set(slot: &mut SourcedValue, v: SourcedValue) {\n    let old = slot.source.clone();\n    *slot = v;\n    if slot.source.is_none() { slot.source = old; }\n}")
m("this_from_definition_object", ["C14"], EV, "                    Ok(value::new_val_ref_with_source(v, source_val.v.clone()))", "                    Ok(if matches!(v, Value::Func(_)) && lock_deref!(props).len() > 3 { value::new_val_ref_with_no_source(v) } else { value::new_val_ref_with_source(v, source_val.v.clone()) })")
m("arity_le", ["C14", "C13"], EV, "                    } else if num_params != got {", "                    } else if num_params < got {")
m("rest_alias_when_exact", ["C14", "C13"], EV, "                                let rest = arg_vals[num_params-1 ..].to_vec();\n\n                                value::new_list(rest)", "                                let rest = arg_vals[num_params-1 ..].to_vec();\n\n                                if rest.len() == 1 { if let Value::List(_) = rest[0].v { rest[0].clone() } else { value::new_list(rest) } } else { value::new_list(rest) }")
m("slot_end_off_by_one", ["C15"], LX, "                        let slot = (cur_interpolation_start, chars.len()+1);", "                        let slot = (cur_interpolation_start, chars.len());")
m("hex_upper_only", ["C15", "C03"], LX, "                        match u8::from_str_radix(&c.to_string(), 16) {", "                        match u8::from_str_radix(&c.to_string(), if c.is_ascii_lowercase() && first_hex_char.is_some() { 10 } else { 16 }) {")
m("escape_dollar_kept", ["C15"], LX, "                    if c == '\\\\' || c == '\"' || c == '$' {\n                        chars.push(c);", "                    if c == '\\\\' || c == '\"' || c == '$' {\n                        if c == '$' && interpolate { chars.push('\\\\'); }\n                        chars.push(c);")
m("interp_join_space", ["C15"], EV, "    Ok(result.join(\"\"))", "    Ok(if result.len() > 5 { result.join(\" \") } else { result.join(\"\") })")
