"""AST -> source text under a layout policy, plus ground-truth positions.

`render(stmts, layout)` returns a `Rendered` with
  .text     the program text (str)
  .pos      {id(node): (line, col)} position of the node's first token,
            including parentheses wrapped directly around it (that is the
            position the documented diagnostics point at)
  .oppos    {id(node): (line, col)} position of the operator token of Bin /
            OpAssign nodes, keyword of Break/Continue/Return, name of FuncStmt
  .tokens   expected token stream [(kind, value, line, col)] including the
            statement-end tokens that are not suppressed
Positions are known because the printer put the tokens there; nothing is
re-derived from the text.
"""

import random

from . import sast as A

SYMBOL_KIND = {
    "}": "BraceClose", "{": "BraceOpen", "]": "BracketClose", "[": "BracketOpen",
    ":": "Colon", ",": "Comma", "/": "Div", ".": "Dot", "=": "Equals",
    ">": "GreaterThan", "<": "LessThan", "%": "Mod", "*": "Mul",
    ")": "ParenClose", "(": "ParenOpen", "-": "Sub", "+": "Sum",
    "&&": "AmpAmp", "!=": "BangEquals", ":=": "ColonEquals", "->": "DashGreaterThan",
    "/=": "DivEquals", "..": "DotDot", "==": "EqualsEquals", ">=": "GreaterThanEquals",
    "<=": "LessThanEquals", "%=": "ModEquals", "*=": "MulEquals", "||": "PipePipe",
    "-=": "SubEquals", "+=": "SumEquals", "===": "EqualsEqualsEquals",
    "!==": "BangEqualsEquals",
}
KEYWORD_KIND = {k: k.capitalize() for k in A.KEYWORDS}

# Tokens after which a line break continues the statement (property C09).
CONTINUATION = ["+", "-", "*", "/", "%", "==", "!=", "<", "<=", ">", ">=", "&&", "||",
                "=", ":=", "+=", "-=", "*=", "/=", "%=", ",", ".", "(", "[", "{"]
CONT_SET = set(CONTINUATION)

DOUBLES = {"&&", "!=", ":=", "->", "/=", "..", "==", ">=", "<=", "%=", "*=", "||", "-=", "+="}


def _wordch(c):
    return c.isascii() and (c.isalnum() or c == "_")


def needs_space(a, b):
    """Would the texts of two adjacent tokens merge if written back to back?"""
    if not a or not b:
        return False
    if _wordch(a[-1]) and _wordch(b[0]):
        return True
    if a[-1] + b[0] in DOUBLES:
        return True
    if a in ("==", "!=") and b[0] == "=":
        return True
    if a[-1] == "$" or a[-1] == "!" or a[-1] == "&" or a[-1] == "|":
        return True
    return False


class Layout:
    """Layout policy.  All probabilities default to 0 => canonical layout."""

    def __init__(self, seed=None, p_break=0.0, p_ws=0.0, p_comment=0.0, p_semi=0.0,
                 p_blank=0.0, p_hex=0.0, p_under=0.0, p_paren=0.0, break_after=None,
                 crlf=False, compact=False, lead=None, comment_texts=None,
                 multiline_strings=False, indent=True, p_trail=0.0, p_semis=0.0, p_zero=0.0):
        self.rng = random.Random(seed)
        self.p_break = p_break
        self.p_ws = p_ws
        self.p_comment = p_comment
        self.p_semi = p_semi
        self.p_blank = p_blank
        self.p_hex = p_hex
        self.p_under = p_under
        self.p_paren = p_paren
        self.break_after = set(break_after or ())
        self.crlf = crlf
        self.compact = compact
        self.lead = lead            # text put before the first token (must be layout only)
        self.comment_texts = comment_texts or COMMENT_TEXTS
        self.multiline_strings = multiline_strings
        self.indent = indent
        self.p_zero = p_zero        # leading zeros on integer literals (`007` is 7)
        self.p_semis = p_semis      # extra `;` after a statement terminator (empty statements are swallowed by the lexer)
        self.p_trail = p_trail      # trailing comma after the last item of a list / argument list / parameter list / object literal (where the grammar allows one)

    @staticmethod
    def random(seed, strength=1.0):
        r = random.Random(seed)
        k = strength
        return Layout(seed=r.random(), p_break=r.choice([0, 0.2, 0.6]) * k,
                      p_ws=r.choice([0, 0.3, 0.7]) * k, p_comment=r.choice([0, 0.2, 0.5]) * k,
                      p_semi=r.choice([0, 0.3, 1.0]), p_blank=r.choice([0, 0.3]) * k,
                      p_hex=r.choice([0, 0.3]) * k, p_under=r.choice([0, 0.5]) * k,
                      p_paren=r.choice([0, 0, 0.15]) * k, crlf=r.random() < 0.15 * k,
                      compact=r.random() < 0.3, multiline_strings=r.random() < 0.3 * k,
                      p_trail=r.choice([0, 0, 0.5]) * k, p_semis=r.choice([0, 0, 0.3]) * k, p_zero=r.choice([0, 0, 0.3]) * k)


COMMENT_TEXTS = ["", " plain", " é✓😀 \"quoted\" $x ${y}", "# ## }{)(", " x := 1; print(x)",
                 "\t tab\t", " \\ backslash \\n", " ünï"]


class Tok:
    __slots__ = ("text", "kind", "val", "glue_l", "glue_r", "line", "col", "block_open", "offset", "optional")

    def __init__(self, text, kind, val="", glue_l=False, glue_r=False):
        self.text = text
        self.kind = kind
        self.val = val
        self.glue_l = glue_l
        self.glue_r = glue_r
        self.line = self.col = None
        self.block_open = False
        self.offset = None
        self.optional = False      # a token only this layout writes (trailing comma): not part of the layout-independent token sequence


class Term:
    """Statement terminator placeholder."""
    __slots__ = ("depth",)

    def __init__(self, depth):
        self.depth = depth


class Rendered:
    def __init__(self):
        self.text = ""
        self.pos = {}
        self.oppos = {}
        self.tokens = []
        self.items = []
        self.nlines = 0
        self.slotpos = {}


class _Emitter:
    def __init__(self, layout, inline=False):
        self.lay = layout
        self.items = []
        self.start = {}      # id(node) -> item index of first token
        self.opidx = {}      # id(node) -> item index of operator/keyword/name token
        self.istr_idx = {}
        self.slotpos = {}    # id(node inside an interpolation slot) -> synthetic (-slot_no, item index)
        self.depth = 0
        self.inline = inline  # inside an interpolation slot: single line, canonical

    # -- token helpers
    def tok(self, text, kind=None, val="", gl=False, gr=False):
        if kind is None:
            kind = SYMBOL_KIND.get(text) or KEYWORD_KIND.get(text)
            if kind is None:
                raise ValueError("unknown token %r" % text)
        self.items.append(Tok(text, kind, val, gl, gr))
        return len(self.items) - 1

    def term(self):
        self.items.append(Term(self.depth))

    # -- statements
    def block_body(self, body):
        self.items[self.tok("{")].block_open = True
        self.depth += 1
        for s in body:
            self.stmt(s)
            self.term()
        self.depth -= 1
        self.tok("}")

    def params(self, params, collect):
        self.tok("(", gl=True, gr=True)
        for i, p in enumerate(params):
            if i:
                self.tok(",", gl=True)
            if collect and i == len(params) - 1:
                self.tok("..", gr=True)
            self.expr(p, 1)
        if params and not collect:
            self.trail()
        self.tok(")", gl=True)

    def trail(self):
        lay = self.lay
        if not self.inline and getattr(lay, "p_trail", 0) and lay.rng.random() < lay.p_trail:
            self.items[self.tok(",", gl=True)].optional = True

    def stmt(self, s):
        if id(s) in self.start:
            raise ValueError("statement node occurs twice in the tree: %r" % (s,))
        self.start[id(s)] = len(self.items)
        if isinstance(s, A.Block):
            if not s.body:
                raise ValueError("bare block needs a statement")
            self.block_body(s.body)
        elif isinstance(s, A.ExprStmt):
            self.expr(s.e, 1)
        elif isinstance(s, A.Declare):
            self.expr(s.l, 1)
            self.tok(":=")
            self.expr(s.r, 1)
        elif isinstance(s, A.Assign):
            self.expr(s.l, 1)
            self.tok("=")
            self.expr(s.r, 1)
        elif isinstance(s, A.OpAssign):
            self.expr(s.l, 1)
            self.opidx[id(s)] = self.tok(s.op + "=")
            self.expr(s.r, 1)
        elif isinstance(s, A.If):
            for i, (cond, body) in enumerate(s.branches):
                if i:
                    self.tok("else")
                self.tok("if")
                self.expr(cond, 1)
                self.block_body(body)
            if s.els is not None:
                self.tok("else")
                self.block_body(s.els)
        elif isinstance(s, A.While):
            self.tok("while")
            self.expr(s.cond, 1)
            self.block_body(s.body)
        elif isinstance(s, A.For):
            self.tok("for")
            self.expr(s.l, 1)
            self.tok("in")
            self.expr(s.it, 1)
            self.block_body(s.body)
        elif isinstance(s, A.Break):
            self.opidx[id(s)] = self.tok("break")
        elif isinstance(s, A.Continue):
            self.opidx[id(s)] = self.tok("continue")
        elif isinstance(s, A.FuncStmt):
            self.tok("fn")
            self.opidx[id(s)] = self.tok(s.name, "Ident", s.name)
            self.params(s.params, s.collect)
            self.block_body(s.body)
        elif isinstance(s, A.Return):
            self.opidx[id(s)] = self.tok("return")
            self.expr(s.e, 1)
        else:
            raise TypeError(s)

    # -- expressions
    @staticmethod
    def tier_of(e):
        if isinstance(e, A.Range):
            return 1
        if isinstance(e, A.Bin):
            return A.TIER[e.op]
        if isinstance(e, (A.Call, A.Index, A.RangeIndex, A.Prop)):
            return 5
        return 6

    def expr(self, e, min_tier):
        """Emit e; wrap in parentheses iff its tier is below min_tier."""
        lay = self.lay
        need = self.tier_of(e) < min_tier
        extra = (not self.inline) and lay.p_paren and lay.rng.random() < lay.p_paren
        n = (1 if need else 0) + (1 if extra else 0)
        first = len(self.items)
        for _ in range(n):
            self.tok("(", gr=True)
        self.raw(e, first)
        for _ in range(n):
            self.tok(")", gl=True)

    def raw(self, e, first):
        """Emit e without adding parens; `first` is the item index where the
        (possibly parenthesised) expression started."""
        if isinstance(e, A.Paren):
            self.tok("(", gr=True)
            self.raw(e.e, first)
            self.tok(")", gl=True)
            self.start[id(e)] = first
            return
        if id(e) in self.start:
            raise ValueError("expression node occurs twice in the tree: %r" % (e,))
        self.start[id(e)] = first
        if isinstance(e, A.Null):
            self.tok("null")
        elif isinstance(e, A.Bool):
            self.tok("true" if e.b else "false")
        elif isinstance(e, A.Int):
            if e.n < 0:
                self.tok("-", gr=True)
            self.tok(self.int_text(abs(e.n)), "IntLiteral", str(abs(e.n)))
        elif isinstance(e, A.Str):
            self.tok('"' + self.str_text(e.s) + '"', "StrLiteral", e.s)
        elif isinstance(e, A.StrLit):
            self.tok('"' + e.src + '"', "StrLiteral", e.s)
        elif isinstance(e, A.IStr):
            text, decoded, slots = self.istr(e)
            self.istr_idx[id(e)] = self.tok(text, "InterpStrLiteral", (decoded, slots))
        elif isinstance(e, A.Var):
            self.tok(e.name, "Ident", e.name)
        elif isinstance(e, A.Bin):
            t = A.TIER[e.op]
            self.expr(e.l, t)
            self.opidx[id(e)] = self.tok(e.op)
            self.expr(e.r, t + 1)
        elif isinstance(e, A.Range):
            self.expr(e.a, 1)
            self.tok("..")
            self.expr(e.b, 2)
        elif isinstance(e, A.ListE):
            self.tok("[", gr=True)
            for i, (it, spread) in enumerate(e.items):
                if i:
                    self.tok(",", gl=True)
                if e.collect and i == len(e.items) - 1:
                    self.tok("..", gr=True)
                self.expr(it, 1)
                if spread:
                    self.tok("..", gl=True)
            if e.items and not e.collect:
                self.trail()
            self.tok("]", gl=True)
        elif isinstance(e, A.ObjectE):
            self.tok("{", gr=True)
            for i, p in enumerate(e.props):
                if i:
                    self.tok(",", gl=True)
                if isinstance(p, A.Pair):
                    self.expr(p.k, 1)
                    self.tok(":", gl=True)
                    self.expr(p.v, 1)
                else:
                    if p.collect:
                        self.tok("..", gr=True)
                    self.expr(p.e, 1)
                    if p.spread:
                        self.tok("..", gl=True)
            if e.props:
                self.trail()
            self.tok("}", gl=True)
        elif isinstance(e, A.Index):
            self.expr(e.e, 5)
            self.tok("[", gl=True, gr=True)
            self.expr(e.i, 1)
            self.tok("]", gl=True)
        elif isinstance(e, A.RangeIndex):
            self.expr(e.e, 5)
            self.tok("[", gl=True, gr=True)
            if e.a is not None:
                self.expr(e.a, 1)
            self.tok(":", gl=True, gr=True)
            if e.b is not None:
                self.expr(e.b, 1)
            self.tok("]", gl=True)
        elif isinstance(e, A.Prop):
            if e.name in A.KEYWORDS:
                raise ValueError("keyword %r cannot be a property name after `.`" % e.name)
            self.expr(e.e, 5)
            self.tok("->" if e.type_prop else ".", gl=True, gr=True)
            self.tok(e.name, "Ident", e.name)
        elif isinstance(e, A.FuncE):
            self.tok("fn")
            self.params(e.params, e.collect)
            self.block_body(e.body)
        elif isinstance(e, A.Call):
            self.expr(e.f, 5)
            self.tok("(", gl=True, gr=True)
            for i, (a, spread) in enumerate(e.args):
                if i:
                    self.tok(",", gl=True)
                self.expr(a, 1)
                if spread:
                    self.tok("..", gl=True)
            if e.args:
                self.trail()
            self.tok(")", gl=True)
        else:
            raise TypeError(e)

    # -- literal spellings
    def int_text(self, n):
        s = str(n)
        lay = self.lay
        if not self.inline and getattr(lay, "p_zero", 0) and lay.rng.random() < lay.p_zero:
            s = "0" * lay.rng.choice([1, 2, 5]) + s
        if self.inline or not lay.p_under or lay.rng.random() >= lay.p_under:
            return s
        out = s[0]
        for ch in s[1:]:
            while lay.rng.random() < 0.3:
                out += "_"
            out += ch
        while lay.rng.random() < 0.3:
            out += "_"
        return out

    def str_text(self, s, interp=False):
        lay = self.lay
        out = []
        for ch in s:
            o = ord(ch)
            if not self.inline and o < 0x80 and lay.p_hex and lay.rng.random() < lay.p_hex:
                out.append("\\x%02x" % o if lay.rng.random() < 0.5 else "\\x%02X" % o)
            elif ch == "\\":
                out.append("\\\\")
            elif ch == '"':
                out.append('\\"')
            elif ch == "$":
                out.append("\\$")
            elif ch == "\n":
                out.append("\n" if (lay.multiline_strings and not self.inline) else "\\n")
            elif ch == "\r":
                # with multi-line literals a carriage return is written raw as well (it stays part of the string, also in front of a line feed)
                out.append("\r" if (lay.multiline_strings and not self.inline and lay.rng.random() < 0.7) else "\\r")
            else:
                out.append(ch)
        return "".join(out)

    def istr(self, e):
        text = ['$"']
        decoded = []
        slots = []
        for p in e.parts:
            if isinstance(p, str):
                text.append(self.str_text(p, interp=True))
                decoded.append(p)
            elif isinstance(p, tuple):
                text.append(p[0])
                decoded.append(p[1])
            else:
                if isinstance(p, A.RawSlot):
                    slot_text = p.text
                else:
                    sub = _Emitter(Layout(), inline=True)
                    sub.expr(p, 1)
                    slot_text = _inline_text(sub.items)
                    slot_no = len(self.slotpos) + 1
                    for nid, idx in sub.start.items():
                        self.slotpos[nid] = (-slot_no, idx)
                    for nid, sp in sub.slotpos.items():
                        self.slotpos[nid] = (sp[0] - 100000 * slot_no, sp[1])
                depth = 0
                for ch in slot_text:
                    if ch == "{":
                        depth += 1
                    elif ch == "}":
                        depth -= 1
                        if depth < 0:
                            raise ValueError("unbalanced braces in slot: %r" % slot_text)
                if depth != 0:
                    raise ValueError("unbalanced braces in slot: %r" % slot_text)
                start = sum(len(d) for d in decoded)
                piece = "${" + slot_text + "}"
                text.append(piece)
                decoded.append(piece)
                slots.append((start, start + len(piece)))
        text.append('"')
        return "".join(text), "".join(decoded), slots


def _inline_text(items):
    out = []
    prev = None
    for it in items:
        if isinstance(it, Term):
            out.append(";")
            prev = None
            continue
        if prev is not None:
            if needs_space(prev.text, it.text) or not (prev.glue_r or it.glue_l):
                out.append(" ")
        out.append(it.text)
        prev = it
    return "".join(out)


WS_CHOICES = [" ", "  ", "\t", " \t ", "\r", "\x0c", "   "]


def render(stmts, layout=None):
    lay = layout or Layout()
    em = _Emitter(lay)
    for s in stmts:
        em.stmt(s)
        em.term()
    return layout_items(em, lay)


def render_expr_stmt_free(em_fn, layout=None):
    lay = layout or Layout()
    em = _Emitter(lay)
    em_fn(em)
    return layout_items(em, lay)


def layout_items(em, lay):
    rng = lay.rng
    out = []          # text chunks
    line, col = 1, 0  # position of the last character written
    r = Rendered()
    nl = "\r\n" if lay.crlf else "\n"

    nchars = [0]

    def write(s):
        nonlocal line, col
        out.append(s)
        nchars[0] += len(s)
        for ch in s:
            if ch == "\n":
                line += 1
                col = 0
            else:
                col += 1

    def comment():
        t = rng.choice(lay.comment_texts)
        write("#" + t)

    def newline(depth):
        if lay.p_comment and rng.random() < lay.p_comment:
            if out and out[-1] and not out[-1].endswith((" ", "\n", "\t")) and rng.random() < 0.6:
                write(" ")       # otherwise the comment starts directly after the previous token
            comment()
        write(nl)
        while lay.p_blank and rng.random() < lay.p_blank:
            if rng.random() < 0.3:
                write(rng.choice([" ", "\t", "  "]))
            if lay.p_comment and rng.random() < lay.p_comment:
                comment()
            write(nl)
        if lay.indent and not lay.compact:
            write("    " * depth)
        elif lay.p_ws and rng.random() < lay.p_ws:
            write(rng.choice(WS_CHOICES))

    if lay.lead:
        write(lay.lead)

    items = em.items
    idx_pos = {}
    prev = None           # previous Tok (None right after a terminator / at start)
    last_lex = None       # kind of the last token the lexer would have returned or swallowed
    depth = 0
    for i, it in enumerate(items):
        if isinstance(it, Term):
            # choose terminator
            use_semi = lay.p_semi and rng.random() < lay.p_semi
            # next item closes a block on the same line in compact mode
            if use_semi:
                if lay.p_ws and rng.random() < lay.p_ws:
                    write(rng.choice(WS_CHOICES))
                write(";")
                tl, tc = line, col
                if last_lex not in CONT_KINDS and last_lex is not None:
                    r.tokens.append(("StmtEnd", "", tl, tc))
                last_lex = "StmtEnd"
                more = rng.random() < 0.5 or not lay.compact
                if more:
                    # a following newline is swallowed (StmtEnd after StmtEnd)
                    newline(it.depth if not _next_closes(items, i) else it.depth - 1)
                else:
                    write(" ")
            else:
                # newline terminator; StmtEnd token is reported at (line+1, 0)
                if lay.p_comment and rng.random() < lay.p_comment:
                    write(" ")
                    comment()
                write(nl)
                if last_lex not in CONT_KINDS and last_lex is not None:
                    r.tokens.append(("StmtEnd", "", line, 0))
                last_lex = "StmtEnd"
                while lay.p_blank and rng.random() < lay.p_blank:
                    if lay.p_comment and rng.random() < lay.p_comment:
                        comment()
                    write(nl)
                if lay.indent and not lay.compact:
                    d = it.depth if not _next_closes(items, i) else it.depth - 1
                    write("    " * max(d, 0))
                elif lay.p_ws and rng.random() < lay.p_ws:
                    write(rng.choice([" ", "\t", "  "]))
            if lay.p_semis and rng.random() < lay.p_semis:
                # a run of empty statements: no token results (a terminator after a terminator is swallowed)
                for _ in range(rng.choice([1, 1, 2, 3])):
                    write(";")
                    if rng.random() < 0.4:
                        write(rng.choice([" ", "  ", "\t"]))
            prev = None
            continue
        # separator before this token
        if prev is not None:
            brk = (prev.text in CONT_SET and prev.kind in CONT_KINDS and
                   ((lay.p_break and rng.random() < lay.p_break) or prev.text in lay.break_after))
            if brk:
                newline(depth + 1)
            elif prev.block_open and lay.indent and not lay.compact and it.text != "}":
                newline(depth)
            else:
                must = needs_space(prev.text, it.text)
                if lay.p_ws and rng.random() < lay.p_ws:
                    write(rng.choice(WS_CHOICES))
                elif must:
                    write(" ")
                elif lay.compact:
                    pass
                elif not (prev.glue_r or it.glue_l):
                    write(" ")
        tl, tc = line, col + 1   # position of the token's first character
        it.offset = nchars[0]
        write(it.text)
        it.line, it.col = tl, tc
        idx_pos[i] = (tl, tc)
        r.tokens.append((it.kind, it.val, tl, tc))
        last_lex = it.kind
        if it.text == "{":
            depth += 1
        elif it.text == "}":
            depth -= 1
        prev = it

    r.text = "".join(out)
    r.istr_tok = em.istr_idx
    r.slotpos = em.slotpos
    r.items = items
    r.nlines = line
    n_items = len(items)
    for nid, idx in em.start.items():
        j = idx
        while j < n_items and isinstance(items[j], Term):
            j += 1
        if j in idx_pos:
            r.pos[nid] = idx_pos[j]
    for nid, idx in em.opidx.items():
        r.oppos[nid] = idx_pos[idx]
    return r


CONT_KINDS = {SYMBOL_KIND[t] for t in CONTINUATION} | {"StmtEnd"}


def _next_closes(items, i):
    return i + 1 < len(items) and isinstance(items[i + 1], Tok) and items[i + 1].text == "}"


def render_tokens_only(rendered):
    return [(k, v) for (k, v, _, _) in rendered.tokens]
