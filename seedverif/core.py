"""Build, run, classify, report: the parts every check shares."""

import fcntl
import hashlib
import json
import multiprocessing as mp
import os
import random
import re
import resource
import shutil
import signal
import subprocess
import sys
import tempfile
import time

VERIF = os.path.dirname(os.path.dirname(os.path.abspath(__file__)))
REPO = os.environ.get("VERIF_REPO", "/repo")
WORK = os.path.join(VERIF, ".work")
EVIDENCE_DIR = os.path.join(VERIF, "evidence")
REPLAY_DIR = os.path.join(VERIF, "replays")
FINDINGS_FILE = os.path.join(VERIF, "KNOWN_FINDINGS.txt")
NPROC = min(16, os.cpu_count() or 4)

BIN_VERIF = os.path.join(WORK, "target-verif", "debug", "seed")
BIN_PLAIN = os.path.join(WORK, "target-plain", "debug", "seed")


class Inconclusive(Exception):
    pass


# --------------------------------------------------------------------------- build

def build(plain=True, verif=True, quiet=True):
    """(Re)build /repo's working tree into .work/ (hooks on, and plain)."""
    os.makedirs(WORK, exist_ok=True)
    env = dict(os.environ)
    env["CARGO_NET_OFFLINE"] = "true"
    env.pop("RUSTFLAGS", None)
    lock = open(os.path.join(WORK, "build.lock"), "w")
    fcntl.flock(lock, fcntl.LOCK_EX)
    try:
        jobs = []
        if verif:
            jobs.append(("target-verif", ["--features", "verif"]))
        if plain:
            jobs.append(("target-plain", []))
        for tdir, extra in jobs:
            cmd = ["cargo", "build", "--offline", "--locked", "--manifest-path",
                   os.path.join(REPO, "Cargo.toml"), "--target-dir", os.path.join(WORK, tdir)] + extra
            p = subprocess.run(cmd, env=env, stdout=subprocess.PIPE, stderr=subprocess.STDOUT)
            if p.returncode != 0:
                sys.stdout.write(p.stdout.decode("utf-8", "replace")[-4000:])
                raise Inconclusive("cargo build failed for %s" % tdir)
    finally:
        fcntl.flock(lock, fcntl.LOCK_UN)
        lock.close()


# --------------------------------------------------------------------------- running

class Obs:
    """One observed execution."""
    __slots__ = ("code", "out", "err", "trace", "timeout", "wall")

    def __init__(self, code, out, err, trace=None, timeout=False, wall=0.0):
        self.code = code
        self.out = out
        self.err = err
        self.trace = trace
        self.timeout = timeout
        self.wall = wall

    @property
    def crashed(self):
        """Died from a panic / signal / unexpected exit status (a stack overflow is reported separately)."""
        if self.timeout:
            return False
        if self.stack_overflow:
            return False
        return self.code not in (0, 103) or b"panicked at" in self.err

    @property
    def died(self):
        """crashed, or overflowed its stack.  Checks that judge only programs the reference model ran within
        its small depth budget (calls <= 40, nesting <= 40, far below the host limit) use this: for such a
        program a stack overflow is unbounded recursion, not a deep input."""
        return self.crashed or self.stack_overflow

    @property
    def stack_overflow(self):
        return b"has overflowed its stack" in self.err

    @property
    def ok(self):
        return self.code == 0

    @property
    def failed(self):
        return self.code == 103

    def brief(self):
        return {"exit": self.code, "stdout": self.out.decode("utf-8", "replace")[-2000:],
                "stderr": self.err.decode("utf-8", "replace")[-2000:], "timeout": self.timeout}


def _limits():
    resource.setrlimit(resource.RLIMIT_AS, (4 << 30, 4 << 30))
    resource.setrlimit(resource.RLIMIT_CORE, (0, 0))


_WDIR = None


def _worker_dir():
    global _WDIR
    if _WDIR is None or not os.path.isdir(_WDIR):
        base = "/dev/shm" if os.path.isdir("/dev/shm") and os.access("/dev/shm", os.W_OK) else WORK
        _WDIR = tempfile.mkdtemp(prefix="seedverif-%d-" % os.getpid(), dir=base)
    return _WDIR


def run_one(job):
    """job: dict(src=bytes|str, bin=path, name='t.sd', trace=bool, env=dict, timeout=float)
    Runs `seed <name>` with cwd = a private directory."""
    src = job["src"]
    if isinstance(src, str):
        src = src.encode("utf-8")
    d = _worker_dir()
    name = job.get("name", "t.sd")
    path = os.path.join(d, name)
    with open(path, "wb") as f:
        f.write(src)
    env = dict(job.get("env") or {})
    tpath = None
    if job.get("trace"):
        tpath = os.path.join(d, "trace.log")
        try:
            os.unlink(tpath)
        except FileNotFoundError:
            pass
        env["SEED_VERIF_TRACE"] = tpath
    t0 = time.time()
    timeout = job.get("timeout", 12.0)
    try:
        arg = name
        if job.get("argpath") == "abs":
            arg = path
        elif job.get("argpath"):
            arg = job["argpath"]
        p = subprocess.run([job.get("bin", BIN_VERIF), arg], cwd=d, env=env, stdin=subprocess.DEVNULL,
                           stdout=subprocess.PIPE, stderr=subprocess.PIPE, timeout=timeout,
                           preexec_fn=_limits)
        code, out, err, to = p.returncode, p.stdout, p.stderr, False
    except subprocess.TimeoutExpired as e:
        code, out, err, to = -999, e.stdout or b"", e.stderr or b"", True
    trace = None
    if tpath:
        try:
            with open(tpath, "rb") as f:
                trace = f.read().decode("utf-8", "replace")
        except FileNotFoundError:
            trace = ""
    o = Obs(code, out, err, trace, to, time.time() - t0)
    if job.get("argpath"):
        o.trace = arg          # (the path as given, for checks that vary the spelling)
    return o


def _cleanup_worker():
    global _WDIR
    if _WDIR and os.path.isdir(_WDIR):
        shutil.rmtree(_WDIR, ignore_errors=True)
    _WDIR = None


def _pool_init():
    import atexit
    signal.signal(signal.SIGINT, signal.SIG_IGN)
    atexit.register(_cleanup_worker)
    # multiprocessing workers exit through os._exit; make sure the scratch dir goes away
    from multiprocessing import util
    util.Finalize(None, _cleanup_worker, exitpriority=1)


_POOL = None


def pool():
    global _POOL
    if _POOL is None:
        try:
            os.unlink(os.path.join(WORK, "hangs-%d" % os.getpid()))
        except OSError:
            pass
        _POOL = mp.Pool(NPROC, initializer=_pool_init)
    return _POOL


def close_pool():
    global _POOL
    try:
        os.unlink(os.path.join(WORK, "hangs-%d" % os.getpid()))
    except OSError:
        pass
    if _POOL is not None:
        _POOL.close()
        _POOL.join()
        _POOL = None
    _cleanup_worker()


def run_many(jobs, chunksize=8):
    """Run jobs in parallel; returns list of Obs in job order."""
    if not jobs:
        return []
    return pool().map(run_one, jobs, chunksize=chunksize)


def pmap(fn, items, chunksize=4):
    if not items:
        return []
    return pool().map(fn, items, chunksize=chunksize)


def run_dump(mode, texts, binary=None):
    """Run the token/AST dump hook over many inputs (list of str). Returns list of lines."""
    binary = binary or BIN_VERIF
    if not texts:
        return []
    shards = [texts[i::NPROC] for i in range(NPROC)] if len(texts) > 200 else [texts]
    res = pmap(_dump_shard, [(mode, sh, binary) for sh in shards], chunksize=1)
    if len(shards) == 1:
        return res[0]
    out = [None] * len(texts)
    for k, lines in enumerate(res):
        out[k::NPROC] = lines
    return out


def _dump_shard(arg, _depth=0):
    mode, texts, binary = arg
    d = _worker_dir()
    ip, op = os.path.join(d, "dump.in"), os.path.join(d, "dump.out")
    with open(ip, "w") as f:
        for t in texts:
            b = t.encode("utf-8") if isinstance(t, str) else t
            f.write(b.hex() + "\n")
    try:
        p = subprocess.run([binary, "--verif-" + mode, ip, op], env={}, stdin=subprocess.DEVNULL,
                           stdout=subprocess.PIPE, stderr=subprocess.PIPE, timeout=60 if len(texts) > 1 else 8, preexec_fn=_limits)
    except subprocess.TimeoutExpired:
        # the front end does not come back on some input of this shard: run the inputs one at a time
        # (a single dump takes milliseconds); after a few confirmed hangs the rest of the shard is skipped
        if len(texts) == 1:
            return ["hang"]
        out, hangs = [], 0
        for t in texts:
            if hangs >= 3:
                out.append("skipped")
                continue
            rec = _dump_shard((mode, [t], binary), _depth + 1)[0]
            if rec == "hang":
                hangs += 1
            out.append(rec)
        return out
    if p.returncode != 0:
        raise Inconclusive("dump hook exited %d: %s" % (p.returncode, p.stderr[-500:]))
    with open(op) as f:
        lines = f.read().split("\n")
    if lines and lines[-1] == "":
        lines.pop()
    if len(lines) != len(texts):
        if len(texts) == 1:
            # a record that spans several lines (e.g. an identifier token containing a newline): keep it as one record
            return ["\\n".join(lines)]
        if _depth > 12:
            raise Inconclusive("dump hook returned %d records for %d inputs" % (len(lines), len(texts)))
        # some record spans several lines: split the shard to find it
        mid = len(texts) // 2
        return (_dump_shard((mode, texts[:mid], binary), _depth + 1) + _dump_shard((mode, texts[mid:], binary), _depth + 1))
    return lines


# --------------------------------------------------------------------------- seeds

def base_seed():
    try:
        return int(os.environ.get("VERIF_SEED", "0"))
    except ValueError:
        return 0


def rng_for(prop, salt=""):
    h = hashlib.sha256(("%s|%s|%d" % (prop, salt, base_seed())).encode()).digest()
    return random.Random(int.from_bytes(h[:8], "big"))


def sha(text):
    if isinstance(text, str):
        text = text.encode("utf-8")
    return hashlib.sha1(text).hexdigest()


# --------------------------------------------------------------------------- findings

def load_findings():
    """-> {property_id: [(sig, text)]} for `finding:` lines only."""
    out = {}
    if not os.path.exists(FINDINGS_FILE):
        return out
    for line in open(FINDINGS_FILE):
        line = line.strip()
        m = re.match(r"finding:\s+property=(\S+)\s+sig=(\S+)\s+(.*)$", line)
        if m:
            out.setdefault(m.group(1), []).append((m.group(2), m.group(3)))
    return out


# --------------------------------------------------------------------------- reporting

class Report:
    """Collects observations, violations and evidence for one check run."""

    def __init__(self, prop, tier):
        self.prop = prop
        self.tier = tier
        self.t0 = time.time()
        self.evaluations = 0
        self.process_runs = 0
        self.probe_observations = 0
        self.distinct = set()
        self.samples = []
        self.violations = {}      # sig -> case
        self.violation_count = 0
        self.inconclusive = 0
        self.inconclusive_notes = []
        self.discards = 0
        self.cov = {}
        self.rule = ""
        self.exhaustive = None
        self.assumptions = []
        self.known = load_findings().get(prop, [])
        self.known_hit = {}
        self.extra = {}
        self.min_required = {}    # name -> (observed_fn or value, minimum)

    # counts
    def tally(self, table, key, n=1):
        t = self.cov.setdefault(table, {})
        t[key] = t.get(key, 0) + n

    def nontrivial(self, text):
        self.distinct.add(sha(text))

    def sample(self, case, limit=8):
        if len(self.samples) < limit:
            self.samples.append(case)

    def actual_sample(self, case, limit=3):
        """A case this very run executed (put in front of the illustrative ones)."""
        if sum(1 for x in self.samples if isinstance(x, dict) and x.get("actual_case")) < limit:
            c = dict(case)
            c["actual_case"] = True
            self.samples.insert(0, c)

    def note_inconclusive(self, why, detail=None):
        self.inconclusive += 1
        if len(self.inconclusive_notes) < 10:
            self.inconclusive_notes.append({"why": why, "detail": detail})

    def violation(self, sig, what, case):
        """case: dict with at least 'src' (text) ; stored as a replay."""
        self.violation_count += 1
        for ksig, ktext in self.known:
            if ksig == sig:
                self.known_hit[ksig] = ktext
                return
        if sig not in self.violations and len(self.violations) < 20:
            c = dict(case)
            c["what"] = what
            c["sig"] = sig
            self.violations[sig] = c

    def require(self, name, observed, minimum):
        self.min_required[name] = (observed, minimum)

    # finishing
    def finish(self):
        wall = time.time() - self.t0
        os.makedirs(EVIDENCE_DIR, exist_ok=True)
        status = "held"
        shortfalls = {k: v for k, v in self.min_required.items() if v[0] < v[1]}
        total = max(1, self.evaluations)
        too_many_inconclusive = self.inconclusive > max(3, 0.01 * total)
        replay_paths = []
        if self.violations:
            status = "violated"
            for sig, case in self.violations.items():
                replay_paths.append((sig, write_replay(self.prop, sig, case)))
        elif shortfalls or too_many_inconclusive:
            status = "inconclusive"
        cov = {
            "evaluations": int(self.evaluations),
            "distinct_nontrivial": len(self.distinct),
            "rule": self.rule,
            "samples": self.samples[:8],
            "process_runs": self.process_runs,
            "probe_observations": self.probe_observations,
            "inconclusive": self.inconclusive,
            "inconclusive_notes": self.inconclusive_notes,
            "discards": self.discards,
            "monitors": self.cov,
            "status": status,
            "known_findings_reproduced": sorted(self.known_hit),
            "minimum_observations": {k: {"observed": v[0], "required": v[1]} for k, v in self.min_required.items()},
        }
        if self.exhaustive is not None:
            cov["exhaustive"] = bool(self.exhaustive)
        cov.update(self.extra)
        ev = {
            "property_id": self.prop,
            "tier": self.tier,
            "seed": base_seed(),
            "level": "exploration",
            "coverage": cov,
            "assumptions": self.assumptions,
            "wall_s": round(wall, 2),
            "violations": len(self.violations),
        }
        with open(os.path.join(EVIDENCE_DIR, self.prop + ".json"), "w") as f:
            json.dump(ev, f, indent=1, sort_keys=True, default=str)
        for ksig, ktext in self.known_hit.items():
            print("KNOWN-FINDING: property=%s %s" % (self.prop, ktext))
        print("%s %s tier=%s seed=%d evaluations=%d distinct_nontrivial=%d inconclusive=%d wall=%.1fs"
              % (self.prop, status.upper(), self.tier, base_seed(), self.evaluations, len(self.distinct),
                 self.inconclusive, wall))
        if status == "violated":
            for sig, path in replay_paths:
                print("VIOLATION property=%s replay=%s" % (self.prop, path))
                print("  (%s) %s" % (sig, self.violations[sig].get("what", "")))
            return 1
        if status == "inconclusive":
            for k, (o, m) in shortfalls.items():
                print("INCONCLUSIVE %s: observed %s < required %s" % (k, o, m))
            if too_many_inconclusive:
                print("INCONCLUSIVE: %d of %d cases inconclusive: %s" % (self.inconclusive, total, self.inconclusive_notes[:3]))
            return 2
        return 0


def write_replay(prop, sig, case):
    safe = re.sub(r"[^A-Za-z0-9_.-]+", "_", sig)[:80]
    d = os.path.join(REPLAY_DIR, prop, safe)
    os.makedirs(d, exist_ok=True)
    c = dict(case)
    src = c.pop("src", None)
    if src is not None:
        if isinstance(src, str):
            src = src.encode("utf-8")
        with open(os.path.join(d, "case.sd"), "wb") as f:
            f.write(src)
    with open(os.path.join(d, "case.json"), "w") as f:
        json.dump(c, f, indent=1, default=_json_default)
    return d


def _json_default(o):
    if isinstance(o, bytes):
        return o.decode("utf-8", "replace")
    return str(o)


def tier_from_args(argv):
    tier = os.environ.get("VERIF_TIER") or "quick"
    if "--tier" in argv:
        tier = argv[argv.index("--tier") + 1]
    if tier not in ("quick", "thorough"):
        tier = "quick"
    return tier
