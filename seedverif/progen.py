"""Seeded random program generator over the documented feature set.

Programs are generated as ASTs with static type knowledge so that most of them
run to completion; every assignment preserves the exact type descriptor of its
target, so list lengths and object key sets are always known and generated
index expressions are in range.  A fraction of programs gets one planned
failing statement.  Whatever a program does, the reference model says what
must be observed, so "unplanned" failures are legitimate cases too.
"""

import random

from . import sast as A

INT, BOOL, STR, NULL = "int", "bool", "str", "null"

STR_POOL = ["", "a", "abc", "hello world", "é", "x✓y", "😀", "a\nb", "line one\nline two\n\nlast é", "xy\nz\n", "\n\n", "tab\there", "q\"uote", "do$llar",
            "back\\slash", "{brace}", "#hash", "semi;colon", "  spaced  ", "A", "Z9_", "cr\r\nlf", "lone\rcr é\r\n"]
KEY_POOL = ["a", "b", "c", "k", "key", "A", "x y", "é", "", "z9", "_p"]
IDENT_KEYS = {"a", "b", "c", "k", "key", "A", "z9", "_p"}


def tlist(elem, n):
    return ("list", elem, n)


def tobj(fields):
    return ("obj", tuple(sorted(fields.items())))


def tfn(params, ret):
    return ("fn", tuple(params), ret)


def kind(t):
    return t if isinstance(t, str) else t[0]


class Ctx:
    def __init__(self, scopes, in_loop=False, fn_ret=None, depth=0):
        self.scopes = scopes        # list of dict name -> type
        self.in_loop = in_loop
        self.fn_ret = fn_ret        # None outside functions, else the return type
        self.depth = depth
        self.frozen = set()         # names that must not be assigned (loop counters)
        self.binders = set()        # parameters / loop targets that live in scopes[-1]: whether the body may declare them again is unspecified (DESIGN 11.3b)

    def child(self, **kw):
        c = Ctx(self.scopes + [{}], self.in_loop, self.fn_ret, self.depth + 1)
        c.frozen = set(self.frozen)
        for k, v in kw.items():
            setattr(c, k, v)
        return c

    def visible(self):
        out = {}
        for sc in self.scopes:
            out.update(sc)
        return out

    def vars_of(self, t):
        return [n for n, ty in self.visible().items() if ty == t]

    def vars_kind(self, k):
        return [(n, ty) for n, ty in self.visible().items() if kind(ty) == k]


class Gen:
    def __init__(self, seed, size=30, max_depth=4, p_fail=0.3, hostile=False):
        self.r = random.Random(seed)
        self.size = size
        self.max_depth = max_depth
        self.counter = 0
        self.budget = size
        self.fail_at = None
        self.fail_done = False
        self.planned = None
        self.hostile = hostile
        if self.r.random() < p_fail:
            self.fail_at = self.r.randrange(1, max(2, size))
        self.features = set()
        self.stmt_no = 0
        self.no_calls = 0     # >0 while generating an operand whose evaluation order / short-circuiting is not specified

    # ------------------------------------------------------------------ names
    def fresh(self, prefix="v"):
        self.counter += 1
        return "%s%d" % (prefix, self.counter)

    def feat(self, f):
        self.features.add(f)

    # ------------------------------------------------------------------ types
    def rand_type(self, depth=0, allow_fn=False):
        r = self.r
        x = r.random()
        if depth >= 2 or x < 0.45:
            return r.choice([INT, INT, INT, STR, STR, BOOL, NULL] if depth == 0 else [INT, INT, STR, BOOL])
        if x < 0.75:
            return tlist(self.rand_type(depth + 1), r.randrange(0, 4))
        if x < 0.95 or not allow_fn:
            keys = r.sample(KEY_POOL, r.randrange(0, 4))
            return tobj({k: self.rand_type(depth + 1) for k in keys})
        return tfn([r.choice([INT, STR]) for _ in range(r.randrange(0, 3))], r.choice([INT, STR, BOOL]))

    # ------------------------------------------------------------------ expressions
    def int_lit(self):
        r = self.r
        x = r.random()
        if x < 0.75:
            return A.Int(r.randrange(-9, 30))
        if x < 0.95:
            return A.Int(r.randrange(-1000, 100000))
        if self.hostile:
            return A.lit(r.choice([2 ** 63 - 1, -(2 ** 63), 2 ** 62, -(2 ** 62), 3037000500, 2 ** 32, -1, 0]))
        return A.Int(r.choice([2 ** 31, 2 ** 40, -2 ** 33]))

    def str_lit(self):
        return A.Str(self.r.choice(STR_POOL))

    def expr(self, t, ctx, d=0):
        """An expression of static type t."""
        r = self.r
        k = kind(t)
        deep = d >= 3
        cands = ctx.vars_of(t)
        if cands and r.random() < (0.6 if deep else 0.35):
            return A.Var(r.choice(cands))
        # calls to known functions returning t
        fns = [(n, ty) for n, ty in ctx.vars_kind("fn") if ty[2] == t]
        if fns and not deep and not self.no_calls and r.random() < 0.2:
            n, ty = r.choice(fns)
            self.feat("call")
            return A.Call(A.Var(n), [(self.expr(pt, ctx, d + 1), False) for pt in ty[1]])
        # projections out of containers
        if not deep and r.random() < 0.25:
            e = self.projection(t, ctx, d)
            if e is not None:
                return e
        if k == INT:
            return self.int_expr(ctx, d, deep)
        if k == BOOL:
            return self.bool_expr(ctx, d, deep)
        if k == STR:
            return self.str_expr(ctx, d, deep)
        if k == NULL:
            return A.Null()
        if k == "list":
            return self.list_expr(t, ctx, d, deep)
        if k == "obj":
            return self.obj_expr(t, ctx, d, deep)
        if k == "fn":
            return self.fn_expr(t, ctx)
        raise ValueError(t)

    def projection(self, t, ctx, d):
        r = self.r
        opts = []
        for n, ty in ctx.visible().items():
            if kind(ty) == "list" and ty[1] == t and ty[2] > 0:
                opts.append(("idx", n, ty))
            elif kind(ty) == "obj":
                for key, ft in ty[1]:
                    if ft == t:
                        opts.append(("prop", n, key))
        if not opts:
            return None
        o = r.choice(opts)
        if o[0] == "idx":
            self.feat("index")
            return A.Index(A.Var(o[1]), A.Int(r.randrange(0, o[2][2])))
        self.feat("prop")
        if o[2] in IDENT_KEYS and r.random() < 0.6:
            return A.Prop(A.Var(o[1]), o[2], False)
        return A.Index(A.Var(o[1]), A.Str(o[2]))

    def rhs(self, t, ctx, d):
        """Right-hand operand of a binary operator: no user-function calls (the order in which the two
        operands are evaluated, and whether `&&`/`||` skip the second one, is not specified)."""
        self.no_calls += 1
        try:
            return self.expr(t, ctx, d)
        finally:
            self.no_calls -= 1

    def int_expr(self, ctx, d, deep):
        r = self.r
        x = r.random()
        if deep or x < 0.3:
            return self.int_lit()
        if x < 0.6:
            op = r.choice(["+", "-", "+", "-", "*"])
            a = self.expr(INT, ctx, d + 1)
            b = self.rhs(INT, ctx, d + 1) if op != "*" else A.Int(r.randrange(-3, 4))
            e = A.Bin(op, a, b)
            if r.random() < 0.5:
                e = A.Bin("%", e, A.Int(r.choice([7, 10, 100, 1000, -13])))
            return e
        if x < 0.7:
            return A.Bin(r.choice(["/", "%"]), self.expr(INT, ctx, d + 1), A.Int(r.choice([1, 2, 3, 7, -2, -5, 10])))
        if x < 0.8:
            self.feat("len")
            return A.Call(A.Prop(self.expr(STR, ctx, d + 1), "len", True), [])
        if x < 0.9:
            return A.Paren(self.expr(INT, ctx, d + 1))
        return self.int_lit()

    def bool_expr(self, ctx, d, deep):
        r = self.r
        x = r.random()
        if deep or x < 0.2:
            return A.Bool(r.random() < 0.5)
        if x < 0.5:
            return A.Bin(r.choice(["<", "<=", ">", ">=", "==", "!="]), self.expr(INT, ctx, d + 1), self.rhs(INT, ctx, d + 1))
        if x < 0.65:
            return A.Bin(r.choice(["&&", "||"]), self.expr(BOOL, ctx, d + 1), self.rhs(BOOL, ctx, d + 1))
        if x < 0.8:
            t = self.rand_type(1)
            self.feat("eq")
            return A.Bin(r.choice(["==", "!="]), self.expr(t, ctx, d + 1), self.rhs(t, ctx, d + 1))
        if x < 0.9:
            cands = ctx.vars_kind("list") + ctx.vars_kind("obj")
            if cands:
                n, ty = r.choice(cands)
                others = [m for m, ty2 in cands if kind(ty2) == kind(ty)]
                self.feat("refeq")
                return A.Bin(r.choice(["===", "!=="]), A.Var(n), A.Var(r.choice(others)))
        return A.Bin("==", self.expr(STR, ctx, d + 1), self.rhs(STR, ctx, d + 1))

    def str_expr(self, ctx, d, deep):
        r = self.r
        x = r.random()
        if deep or x < 0.35:
            return self.str_lit()
        if x < 0.55:
            return A.Bin("+", self.expr(STR, ctx, d + 1), self.rhs(STR, ctx, d + 1))
        if x < 0.65:
            lit = r.choice(["abc", "hello", "xyz12"])
            base = A.Bin("+", A.Str(lit), self.expr(STR, ctx, d + 1))
            self.feat("str_index")
            if r.random() < 0.5:
                return A.Index(A.Paren(base), A.Int(r.randrange(0, len(lit))))
            a = r.randrange(0, len(lit) + 1)
            b = r.randrange(a, len(lit) + 1)
            return A.RangeIndex(A.Paren(base), A.Int(a) if r.random() < 0.8 or a else None, A.Int(b))
        if x < 0.75:
            self.feat("type_fn")
            t = self.rand_type(1)
            if t == NULL:
                t = INT
            return A.Call(A.Prop(self.atomize(self.expr(t, ctx, d + 1)), "type", True), [])
        if x < 0.9:
            self.feat("interp")
            parts = []
            for _ in range(r.randrange(1, 4)):
                if r.random() < 0.6:
                    parts.append(r.choice(["", "a", " é ", "x=", "😀", "\\", "; ", "#"]))
                parts.append(self.slot_expr(ctx, d + 2))
            if r.random() < 0.6:
                parts.append(r.choice(["", "!", " ✓", "end"]))
            return A.IStr(parts)
        return self.str_lit()

    def slot_expr(self, ctx, d):
        """A string-typed expression that is safe inside `${...}` (balanced braces)."""
        r = self.r
        x = r.random()
        cands = ctx.vars_of(STR)
        if cands and x < 0.5:
            return A.Var(r.choice(cands))
        if x < 0.7:
            return A.Str(r.choice(["", "s", "in ner", "é", "{}", "a{b}c"]))
        if x < 0.85:
            return A.Bin("+", A.Str(r.choice(["p", ""])), self.slot_expr(ctx, d + 1) if d < 4 else A.Str("q"))
        if x < 0.93:
            return A.Index(A.obj(("k", A.Str("v" + r.choice(["", "1", "é"])))), A.Str("k"))
        return A.Call(A.Prop(A.Int(r.randrange(0, 9)), "type", True), [])

    def atomize(self, e):
        """Postfix bases must be tier >= 5; the printer adds parentheses as needed."""
        return e

    def list_expr(self, t, ctx, d, deep):
        r = self.r
        _, elem, n = t
        x = r.random()
        if elem == INT and x < 0.15 and n <= 6:
            a = r.randrange(-3, 5)
            self.feat("range")
            return A.Range(A.Int(a), A.Int(a + n))
        if n > 0 and x < 0.3 and not deep:
            k = r.randrange(0, n + 1)
            self.feat("concat")
            return A.Bin("+", self.expr(tlist(elem, k), ctx, d + 1), self.rhs(tlist(elem, n - k), ctx, d + 1))
        if x < 0.4 and not deep:
            cands = [(m, ty) for m, ty in ctx.vars_kind("list") if ty[1] == elem and ty[2] >= n]
            if cands:
                m, ty = r.choice(cands)
                a = r.randrange(0, ty[2] - n + 1)
                self.feat("range_index")
                lo = None if a == 0 and r.random() < 0.5 else A.Int(a)
                hi = None if a + n == ty[2] and r.random() < 0.5 else A.Int(a + n)
                return A.RangeIndex(A.Var(m), lo, hi)
        if x < 0.5 and not deep and n > 0:
            k = r.randrange(0, n + 1)
            self.feat("spread_list")
            items = [(self.expr(tlist(elem, k), ctx, d + 1), True)]
            items += [(self.expr(elem, ctx, d + 1), False) for _ in range(n - k)]
            r.shuffle(items)
            return A.ListE(items, False)
        return A.ListE([(self.expr(elem, ctx, d + 1), False) for _ in range(n)], False)

    def obj_expr(self, t, ctx, d, deep):
        r = self.r
        fields = list(t[1])
        r.shuffle(fields)
        props = []
        if fields and not deep and r.random() < 0.2:
            # spread an object holding a subset of the fields, then override/add the rest
            k = r.randrange(0, len(fields) + 1)
            sub = tobj(dict(fields[:k]))
            self.feat("spread_obj")
            props.append(A.Single(self.expr(sub, ctx, d + 1), True, False))
            fields = fields[k:] + ([fields[0]] if k and r.random() < 0.3 else [])
        for key, ft in fields:
            v = self.expr(ft, ctx, d + 1)
            if isinstance(v, A.Var) and v.name == key and r.random() < 0.7:
                self.feat("shorthand")
                props.append(A.Single(v, False, False))
            elif r.random() < 0.15:
                # computed property name
                props.append(A.Pair(A.Bin("+", A.Str(key[:1]), A.Str(key[1:])), v))
            else:
                props.append(A.Pair(A.Str(key), v))
        return A.ObjectE(props)

    def fn_expr(self, t, ctx):
        _, ptypes, ret = t
        self.feat("anon_fn")
        names = [self.fresh("p") for _ in ptypes]
        c = Ctx(ctx.scopes + [dict(zip(names, ptypes))], False, ret, ctx.depth + 1)
        c.frozen = set(ctx.frozen)
        c.binders = set(names)
        body = self.stmts(self.r.randrange(0, 3), c)
        body.append(A.Return(self.expr(ret, c, 1)))
        return A.FuncE([A.Var(n) for n in names], False, body)

    # ------------------------------------------------------------------ statements
    def program(self):
        ctx = Ctx([{}])
        out = []
        # seed the environment
        for t in [INT, STR, tlist(INT, 3), tobj({"a": INT, "k": STR})]:
            n = self.fresh()
            out.append(A.Declare(A.Var(n), self.expr(t, ctx)))
            ctx.scopes[-1][n] = t
        out += self.stmts(self.size, ctx)
        return out

    def stmts(self, n, ctx):
        out = []
        for _ in range(n):
            if self.budget <= 0:
                break
            self.budget -= 1
            self.stmt_no += 1
            if self.fail_at is not None and not self.fail_done and self.stmt_no >= self.fail_at:
                self.fail_done = True
                out += self.failing_stmt(ctx)
                continue
            out += self.stmt(ctx)
        return out

    def stmt(self, ctx):
        r = self.r
        x = r.random()
        nested_ok = ctx.depth < self.max_depth and self.budget > 2
        if x < 0.16:
            return self.s_declare(ctx)
        if x < 0.30:
            return self.s_assign(ctx)
        if x < 0.40:
            return self.s_print(ctx)
        if x < 0.47:
            return self.s_opassign(ctx)
        if x < 0.55 and nested_ok:
            return self.s_if(ctx)
        if x < 0.60 and nested_ok:
            return self.s_while(ctx)
        if x < 0.68 and nested_ok:
            return self.s_for(ctx)
        if x < 0.72 and nested_ok:
            self.feat("block")
            return [A.Block(self.stmts(r.randrange(1, 4), ctx.child()) or [A.pr(A.Str("blk"))])]
        if x < 0.79 and nested_ok:
            return self.s_func(ctx)
        if x < 0.84:
            return self.s_destructure(ctx)
        if x < 0.88:
            return self.s_elem_assign(ctx)
        if x < 0.92 and ctx.in_loop:
            self.feat("jump")
            return [A.If([(self.expr(BOOL, ctx, 1), [r.choice([A.Break(), A.Continue()])])], None)]
        if x < 0.95 and ctx.fn_ret is not None:
            self.feat("early_return")
            return [A.If([(self.expr(BOOL, ctx, 1), [A.Return(self.expr(ctx.fn_ret, ctx, 1))])], None)]
        if nested_ok:
            return self.s_idiom(ctx)
        return self.s_print(ctx)

    def declare(self, ctx, name, t):
        ctx.scopes[-1][name] = t

    def s_declare(self, ctx):
        r = self.r
        t = self.rand_type(allow_fn=ctx.depth < 2)
        vis = ctx.visible()
        # sometimes shadow an outer name
        outer = [n for n in vis if n not in ctx.scopes[-1] and n not in ctx.frozen]
        if outer and len(ctx.scopes) > 1 and r.random() < 0.25:
            name = r.choice(outer)
            self.feat("shadow")
        else:
            name = self.fresh()
        e = self.expr(t, ctx)
        self.declare(ctx, name, t)
        out = [A.Declare(A.Var(name), e)]
        if kind(t) != "fn" and r.random() < 0.5:
            out.append(A.pr(A.Var(name)))
        return out

    def assignable(self, ctx):
        return [(n, t) for n, t in ctx.visible().items() if n not in ctx.frozen and kind(t) != "fn"]

    def s_assign(self, ctx):
        r = self.r
        cands = self.assignable(ctx)
        if not cands:
            return self.s_declare(ctx)
        n, t = r.choice(cands)
        self.feat("assign")
        out = [A.Assign(A.Var(n), self.expr(t, ctx))]
        if r.random() < 0.6:
            out.append(A.pr(A.Var(n)))
        return out

    def s_print(self, ctx):
        r = self.r
        vis = [(n, t) for n, t in ctx.visible().items() if kind(t) != "fn"]
        if vis and r.random() < 0.6:
            return [A.pr(A.Var(r.choice(vis)[0]))]
        t = self.rand_type()
        return [A.pr(self.expr(t, ctx))]

    def s_opassign(self, ctx):
        r = self.r
        cands = [(n, t) for n, t in self.assignable(ctx) if t in (INT, STR) or (kind(t) == "list" and t[2] == 0)]
        # element / property targets of int type
        targets = []
        for n, t in ctx.visible().items():
            if kind(t) == "list" and t[1] == INT and t[2] > 0:
                targets.append(A.Index(A.Var(n), A.Int(r.randrange(0, t[2]))))
            if kind(t) == "obj":
                for key, ft in t[1]:
                    if ft == INT:
                        targets.append(A.Prop(A.Var(n), key, False) if key in IDENT_KEYS and r.random() < 0.5
                                       else A.Index(A.Var(n), A.Str(key)))
        self.feat("opassign")
        if targets and r.random() < 0.4:
            tgt = r.choice(targets)
            op = r.choice(["+", "-", "*", "%", "/"])
            rhs = A.Int(r.choice([1, 2, 3, 5, -1, 7])) if op in ("%", "/", "*") else self.expr(INT, ctx, 1)
            return [A.OpAssign(op, tgt, rhs), A.pr(A.clone(tgt))]
        if not cands:
            return self.s_print(ctx)
        n, t = r.choice(cands)
        if t == INT:
            op = r.choice(["+", "-", "*", "%", "/"])
            rhs = A.Int(r.choice([1, 2, 3, 5, -1, 7])) if op in ("%", "/", "*") else self.expr(INT, ctx, 1)
        elif t == STR:
            op, rhs = "+", self.expr(STR, ctx, 1)
        else:
            op, rhs = "+", self.expr(tlist(t[1], 0), ctx, 1)
        return [A.OpAssign(op, A.Var(n), rhs), A.pr(A.Var(n))]

    def s_if(self, ctx):
        r = self.r
        self.feat("if")
        branches = []
        for _ in range(r.randrange(1, 4)):
            branches.append((self.expr(BOOL, ctx, 1), self.stmts(r.randrange(0, 4), ctx.child())))
        els = self.stmts(r.randrange(0, 3), ctx.child()) if r.random() < 0.6 else None
        return [A.If(branches, els)]

    def s_while(self, ctx):
        r = self.r
        self.feat("while")
        i = self.fresh("i")
        n = r.randrange(0, 5)
        self.declare(ctx, i, INT)
        c = ctx.child(in_loop=True)
        c.frozen.add(i)
        body = [A.OpAssign("+", A.Var(i), A.Int(1))] + self.stmts(r.randrange(1, 5), c)
        return [A.Declare(A.Var(i), A.Int(0)), A.While(A.Bin("<", A.Var(i), A.Int(n)), body)]

    def s_for(self, ctx):
        r = self.r
        self.feat("for")
        x = r.random()
        c = ctx.child(in_loop=True)
        if x < 0.4:
            cands = ctx.vars_kind("list")
            if cands and r.random() < 0.7:
                n, t = r.choice(cands)
                it = A.Var(n)
            else:
                t = tlist(self.rand_type(1), r.randrange(0, 4))
                it = self.expr(t, ctx, 1)
            kt, vt = INT, t[1]
            self.feat("for_list")
        elif x < 0.6:
            it = self.expr(STR, ctx, 1)
            kt, vt = INT, STR
            self.feat("for_str")
        elif x < 0.8:
            keys = r.sample(KEY_POOL, r.randrange(0, 4))
            ft = self.rand_type(1)
            t = tobj({k: ft for k in keys})
            cands = [n for n in ctx.vars_of(t)]
            it = A.Var(r.choice(cands)) if cands else self.expr(t, ctx, 1)
            kt, vt = STR, ft
            self.feat("for_obj")
        else:
            a = r.randrange(-2, 3)
            it = A.Range(A.Int(a), A.Int(a + r.randrange(0, 5)))
            kt, vt = INT, INT
            self.feat("for_range")
        y = r.random()
        kn, vn = self.fresh("k"), self.fresh("e")
        if y < 0.5:
            target = A.lst(A.Var(kn), A.Var(vn))
            c.scopes[-1][kn] = kt
            c.scopes[-1][vn] = vt
        elif y < 0.7:
            target = A.lst(A.Var("_"), A.Var(vn))
            c.scopes[-1][vn] = vt
        elif y < 0.85:
            target = A.Var(vn)
            c.scopes[-1][vn] = tlist_pair(kt, vt)
        else:
            target = A.ListE([(A.Var(kn), False), (A.Var(vn), False)], True)
            c.scopes[-1][kn] = kt
            c.scopes[-1][vn] = tlist(vt, 1)
        c.frozen.update([kn, vn])
        c.binders = {kn, vn}
        body = self.stmts(r.randrange(1, 4), c)
        if r.random() < 0.5 and vn in c.scopes[-1] and kind(c.scopes[-1][vn]) != "fn":
            body.insert(0, A.pr(A.Var(vn)))
        return [A.For(target, it, body)]

    def s_func(self, ctx):
        r = self.r
        self.feat("func")
        name = self.fresh("f")
        ptypes = [r.choice([INT, INT, STR, tlist(INT, 2), tobj({"a": INT})]) for _ in range(r.randrange(0, 4))]
        ret = r.choice([INT, STR, BOOL, tlist(INT, 2), NULL])
        pnames = [self.fresh("p") for _ in ptypes]
        t = tfn(ptypes, ret)
        c = Ctx(ctx.scopes + [dict(zip(pnames, ptypes))], False, ret, ctx.depth + 1)
        c.frozen = set(ctx.frozen)
        c.binders = set(pnames)
        body = self.stmts(r.randrange(1, 5), c)
        body.append(A.Return(self.expr(ret, c, 1)))
        self.declare(ctx, name, t)
        out = [A.FuncStmt(name, [A.Var(p) for p in pnames], False, body)]
        call = A.Call(A.Var(name), [(self.expr(pt, ctx, 1), False) for pt in ptypes])
        if r.random() < 0.8:
            out.append(A.pr(call))
        return out

    def s_destructure(self, ctx):
        r = self.r
        x = r.random()
        if x < 0.5:
            cands = [(n, t) for n, t in ctx.vars_kind("list") if t[2] > 0]
            if not cands:
                return self.s_declare(ctx)
            n, t = r.choice(cands)
            self.feat("destructure_list")
            ln = t[2]
            if r.random() < 0.4:
                k = r.randrange(0, ln + 1)
                names = [self.fresh("d") for _ in range(k)] + [self.fresh("rest")]
                items = [(A.Var(m) if r.random() < 0.8 else A.Var("_"), False) for m in names]
                pat = A.ListE(items, True)
                for (pe, _), m in zip(items[:-1], names[:-1]):
                    if pe.name != "_":
                        self.declare(ctx, m, t[1])
                last = items[-1][0]
                if last.name != "_":
                    self.declare(ctx, names[-1], tlist(t[1], ln - k))
                self.feat("collect_list")
            else:
                names = [self.fresh("d") for _ in range(ln)]
                items = [(A.Var(m) if r.random() < 0.8 else A.Var("_"), False) for m in names]
                pat = A.ListE(items, False)
                for (pe, _), m in zip(items, names):
                    if pe.name != "_":
                        self.declare(ctx, m, t[1])
            out = [A.Declare(pat, A.Var(n))]
            if r.random() < 0.3:
                self.feat("destructure_assign")
                out.append(A.Assign(A.clone(pat), A.Var(n)))
            for pe, _ in items:
                if pe.name != "_" and kind(ctx.visible().get(pe.name, INT)) != "fn":
                    out.append(A.pr(A.Var(pe.name)))
            return out
        cands = [(n, t) for n, t in ctx.vars_kind("obj") if t[1]]
        if not cands:
            return self.s_declare(ctx)
        n, t = r.choice(cands)
        self.feat("destructure_obj")
        fields = list(t[1])
        r.shuffle(fields)
        k = r.randrange(1, len(fields) + 1)
        props = []
        out_names = []
        for key, ft in fields[:k]:
            if key in IDENT_KEYS and key not in ctx.scopes[-1] and key not in ("_",) and r.random() < 0.5 \
                    and key not in [m for m, _ in out_names]:
                props.append(A.Single(A.Var(key), False, False))
                out_names.append((key, ft))
            else:
                m = self.fresh("d")
                props.append(A.Pair(A.Str(key), A.Var(m)))
                out_names.append((m, ft))
        if r.random() < 0.5:
            m = self.fresh("rest")
            props.append(A.Single(A.Var(m), False, True))
            out_names.append((m, tobj(dict(fields[k:]))))
            self.feat("collect_obj")
        for m, ft in out_names:
            self.declare(ctx, m, ft)
        out = [A.Declare(A.ObjectE(props), A.Var(n))]
        if r.random() < 0.4:
            self.feat("destructure_assign")
            out.append(A.Assign(A.clone(A.ObjectE(props)), A.Var(n)))
        for m, ft in out_names:
            if kind(ft) != "fn":
                out.append(A.pr(A.Var(m)))
        return out

    def s_elem_assign(self, ctx):
        r = self.r
        opts = []
        for n, t in ctx.visible().items():
            if kind(t) == "list" and t[2] > 0:
                opts.append(("idx", n, t))
                opts.append(("range", n, t))
            elif kind(t) == "obj" and t[1]:
                opts.append(("prop", n, t))
        if not opts:
            return self.s_assign(ctx)
        o, n, t = r.choice(opts)
        if o == "idx":
            self.feat("index_assign")
            st = A.Assign(A.Index(A.Var(n), A.Int(r.randrange(0, t[2]))), self.expr(t[1], ctx, 1))
        elif o == "range":
            self.feat("range_assign")
            a = r.randrange(0, t[2])
            b = r.randrange(a + 1, t[2] + 1)
            lo = None if a == 0 and r.random() < 0.5 else A.Int(a)
            hi = None if b == t[2] and r.random() < 0.5 else A.Int(b)
            if t[1] == STR and r.random() < 0.3:
                rhs = A.Str("".join(r.choice("abcxyz") for _ in range(b - a)))
            else:
                rhs = self.expr(tlist(t[1], b - a), ctx, 1)
            st = A.Assign(A.RangeIndex(A.Var(n), lo, hi), rhs)
        else:
            self.feat("prop_assign")
            key, ft = r.choice(list(t[1]))
            tgt = A.Prop(A.Var(n), key, False) if key in IDENT_KEYS and r.random() < 0.5 else A.Index(A.Var(n), A.Str(key))
            st = A.Assign(tgt, self.expr(ft, ctx, 1))
        return [st, A.pr(A.Var(n))]

    # ------------------------------------------------------------------ idioms
    def s_idiom(self, ctx):
        r = self.r
        k = r.randrange(0, 16)
        s = self.fresh("")
        V = A.Var
        if k == 15:     # documented evaluation orders made visible by a printing pass-through function
            self.feat("evaluation_order")
            tr = "tr" + s
            t = lambda tag, v: A.call(tr, A.Str(tag), v)
            return [
                A.FuncStmt(tr, [V("tag"), V("v")], False, [A.pr(V("tag")), A.Return(V("v"))]),
                A.pr(A.ObjectE([A.Pair(t("n1", A.Str(r.choice(KEY_POOL))), t("v1", self.expr(INT, ctx, 2))), A.Pair(t("n2", A.Str(r.choice(KEY_POOL))), t("v2", A.Int(2))),
                                A.Pair(A.Str("plain"), t("v3", A.Int(3)))])),
                A.pr(A.lst(t("e1", A.Int(1)), t("e2", self.expr(STR, ctx, 2)), t("e3", A.lst(t("e3a", A.Null()))))),
                A.pr(A.Call(V(tr), [(t("a1", A.Str("arg tag")), False), (t("a2", A.Int(5)), False)])),
                A.pr(A.IStr(["<", t("s1", A.Str("x")), "|", t("s2", self.expr(STR, ctx, 2)), ">"])),
                A.pr(A.Index(A.lst(t("i1", A.Int(10)), t("i2", A.Int(20))), A.Int(r.randrange(0, 2)))),
            ]
        if k == 0:      # counter closure
            self.feat("closure_counter")
            mk, c1, c2 = "mk" + s, "ca" + s, "cb" + s
            return [
                A.FuncStmt(mk, [V("start")], False, [
                    A.Declare(V("n"), V("start")),
                    A.Return(A.FuncE([V("by")], False, [A.OpAssign("+", V("n"), V("by")), A.Return(V("n"))])),
                ]),
                A.Declare(V(c1), A.call(mk, A.Int(r.randrange(0, 5)))),
                A.Declare(V(c2), A.call(mk, A.Int(100))),
                A.pr(A.call(c1, A.Int(1))), A.pr(A.call(c2, A.Int(2))), A.pr(A.call(c1, self.expr(INT, ctx, 2))),
            ]
        if k == 1:      # recursion
            self.feat("recursion")
            f = "rec" + s
            n = r.randrange(0, 8)
            return [
                A.FuncStmt(f, [V("n")], False, [
                    A.If([(A.Bin("<=", V("n"), A.Int(1)), [A.Return(A.Int(1))])], None),
                    A.Return(A.Bin("+", A.call(f, A.Bin("-", V("n"), A.Int(1))), A.call(f, A.Bin("-", V("n"), A.Int(2))))),
                ]),
                A.pr(A.call(f, A.Int(n))),
            ]
        if k == 2:      # methods and this
            self.feat("this")
            o1, o2, g = "oa" + s, "ob" + s, "g" + s
            return [
                A.Declare(V(o1), A.obj(("id", A.Int(1)), ("get", A.FuncE([V("d")], False, [A.Return(A.Bin("+", A.Prop(V("this"), "id", False), V("d")))])))),
                A.Declare(V(o2), A.ObjectE([A.Pair(A.Str("id"), A.Int(2)), A.Pair(A.Str("get"), A.Prop(V(o1), "get", False))])),
                A.pr(A.Call(A.Prop(V(o1), "get", False), [(A.Int(10), False)])),
                A.pr(A.Call(A.Prop(V(o2), "get", False), [(A.Int(20), False)])),
                A.Declare(V(g), A.Index(V(o2), A.Str("get"))),
                A.pr(A.call(g, self.expr(INT, ctx, 2))),
                A.Assign(V(g), A.Prop(V(o1), "get", False)),
                A.pr(A.call(g, A.Int(3))),
                A.Declare(V(g + "s"), A.lst(A.Prop(V(o1), "get", False))),
                A.Assign(A.Index(V(g + "s"), A.Int(0)), A.Index(V(o2), A.Str("get"))),
                A.pr(A.Call(A.Index(V(g + "s"), A.Int(0)), [(A.Int(4), False)])),
            ]
        if k == 3:      # rest parameter and spread arguments
            self.feat("rest_spread")
            f, xs = "va" + s, "xs" + s
            n = r.randrange(0, 4)
            return [
                A.FuncStmt(f, [V("a"), V("rest")], True, [A.pr(V("rest")), A.Return(A.Bin("+", V("a"), A.Call(A.Prop(A.Str("x"), "len", True), [])))]),
                A.Declare(V(xs), A.Range(A.Int(0), A.Int(n))),
                A.pr(A.Call(V(f), [(A.Int(7), False), (V(xs), True), (self.expr(INT, ctx, 2), False)])),
                A.pr(A.Call(V(f), [(A.lst(A.Int(1)), True)])),
            ]
        if k == 4:      # destructuring parameters
            self.feat("param_destructure")
            f = "pd" + s
            return [
                A.FuncStmt(f, [A.lst(V("a"), V("b")), A.ObjectE([A.Single(V("k"), False, False), A.Single(V("more"), False, True)])], False, [
                    A.pr(V("more")), A.Return(A.lst(V("b"), V("a"), V("k"))),
                ]),
                A.pr(A.call(f, A.lst(self.expr(INT, ctx, 2), A.Str("s")), A.obj(("k", A.Null()), ("z", A.Int(1)), ("y", self.expr(STR, ctx, 2))))),
            ]
        if k == 5:      # object iteration builds a string
            self.feat("iter_build")
            acc, o = "acc" + s, "io" + s
            keys = r.sample(KEY_POOL, 3)
            return [
                A.Declare(V(o), A.obj(*[(kk, A.Str(kk + "!")) for kk in keys])),
                A.Declare(V(acc), A.Str("")),
                A.For(A.lst(V("k"), V("v")), V(o), [A.OpAssign("+", V(acc), A.IStr([A.Var("k"), "=", A.Var("v"), ";"]))]),
                A.pr(V(acc)),
            ]
        if k == 6:      # higher-order function
            self.feat("higher_order")
            m, out = "map" + s, "out" + s
            return [
                A.FuncStmt(m, [V("f"), V("xs")], False, [
                    A.Declare(V("out"), A.lst()),
                    A.For(A.lst(V("_"), V("x")), V("xs"), [A.OpAssign("+", V("out"), A.lst(A.call("f", V("x"))))]),
                    A.Return(V("out")),
                ]),
                A.pr(A.call(m, A.FuncE([V("x")], False, [A.Return(A.Bin("*", V("x"), A.Int(r.randrange(-3, 4))))]), A.Range(A.Int(0), A.Int(r.randrange(0, 5))))),
            ]
        if k == 8:      # closures created in a loop capture that iteration's variables
            self.feat("loop_closures")
            fs, acc = "fs" + s, "tot" + s
            return [
                A.Declare(V(fs), A.lst()), A.Declare(V(acc), A.Int(0)),
                A.For(A.lst(V("i"), V("x")), A.lst(A.Str("p"), A.Str("q"), A.Str("r")), [
                    A.Declare(V("loc"), A.Bin("*", V("i"), A.Int(10))),
                    A.OpAssign("+", V(fs), A.lst(A.FuncE([V("d")], False, [A.OpAssign("+", V("loc"), V("d")), A.OpAssign("+", V(acc), A.Int(1)),
                                                                          A.Return(A.IStr([V("x"), ":", A.Call(A.Prop(V("loc"), "type", True), [])]))])))]),
                A.For(A.lst(V("_"), V("f")), V(fs), [A.pr(A.call("f", A.Int(1))), A.pr(A.call("f", self.expr(INT, ctx, 2)))]),
                A.pr(V(acc)),
            ]
        if k == 14:     # closures created in a while loop capture that iteration's declarations
            self.feat("while_closures")
            fs, i = "wf" + s, "wi" + s
            return [
                A.Declare(V(fs), A.lst()), A.Declare(V(i), A.Int(0)),
                A.While(A.Bin("<", V(i), A.Int(3)), [
                    A.Declare(V("loc"), A.Bin("*", V(i), A.Int(10))), A.OpAssign("+", V(i), A.Int(1)),
                    A.If([(A.Bin("==", V(i), A.Int(2)), [A.Declare(V("only2"), A.Str("two")), A.OpAssign("+", V(fs), A.lst(A.FuncE([], False, [A.Return(V("only2"))])))])], None),
                    A.OpAssign("+", V(fs), A.lst(A.FuncE([], False, [A.OpAssign("+", V("loc"), A.Int(1)), A.Return(V("loc"))])))]),
                A.For(A.lst(V("_"), V("f")), V(fs), [A.pr(A.call("f")), A.pr(A.call("f"))]),
            ]
        if k == 9:      # nested for-target patterns over a list of pairs / objects
            self.feat("for_nested_pattern")
            ps = "ps" + s
            return [
                A.Declare(V(ps), A.lst(A.lst(A.Int(1), A.obj(("n", A.Str("a")), ("m", A.Int(7)))), A.lst(A.Int(2), A.obj(("n", A.Str("b")), ("m", A.Int(8)), ("z", A.Null()))))),
                A.For(A.lst(V("idx"), A.lst(V("num"), A.ObjectE([A.Single(V("n"), False, False), A.Single(V("other"), False, True)]))), V(ps),
                      [A.pr(A.lst(V("idx"), V("num"), V("n"))), A.pr(V("other"))]),
            ]
        if k == 10:     # jumps through blocks inside a function inside a loop
            self.feat("jumps_through_blocks")
            f = "jb" + s
            return [
                A.FuncStmt(f, [V("lim")], False, [
                    A.Declare(V("i"), A.Int(0)), A.Declare(V("seen"), A.lst()),
                    A.While(A.Bool(True), [
                        A.OpAssign("+", V("i"), A.Int(1)),
                        A.Block([A.If([(A.Bin("==", A.Bin("%", V("i"), A.Int(2)), A.Int(0)), [A.Block([A.Continue()])])], None)]),
                        A.Block([A.If([(A.Bin(">", V("i"), V("lim")), [A.Block([A.Return(V("seen"))])])], None)]),
                        A.OpAssign("+", V("seen"), A.lst(V("i"))),
                        A.If([(A.Bin(">", V("i"), A.Int(40)), [A.Block([A.Break()])])], None)]),
                    A.Return(A.Str("fell out"))]),
                A.pr(A.call(f, A.Int(r.randrange(0, 9)))), A.pr(A.call(f, A.Int(100))),
            ]
        if k == 11:     # byte-level string work
            self.feat("string_bytes")
            t, n = "txt" + s, "nb" + s
            word = r.choice(["héllo", "a✓b", "plain", "😀x", ""])
            return [
                A.Declare(V(t), A.Bin("+", A.Str(word), self.expr(STR, ctx, 2))), A.Declare(V(n), A.Call(A.Prop(V(t), "len", True), [])),
                A.pr(V(n)), A.pr(A.Bin("==", A.Bin("+", A.RangeIndex(V(t), None, A.Bin("/", V(n), A.Int(2))), A.RangeIndex(V(t), A.Bin("/", V(n), A.Int(2)), None)), V(t))),
                A.Declare(V("cnt" + s), A.Int(0)), A.For(V("_"), V(t), [A.OpAssign("+", V("cnt" + s), A.Int(1))]), A.pr(A.Bin("==", V("cnt" + s), V(n))),
            ]
        if k == 12:     # methods calling methods through `this`, handing `this` on
            self.feat("this_chain")
            o = "acct" + s
            return [
                A.Declare(V(o), A.obj(("bal", A.Int(10)),
                                      ("add", A.FuncE([V("d")], False, [A.OpAssign("+", A.Prop(V("this"), "bal", False), V("d")), A.Return(V("this"))])),
                                      ("twice", A.FuncE([V("d")], False, [A.ExprStmt(A.Call(A.Prop(V("this"), "add", False), [(V("d"), False)])),
                                                                          A.Return(A.Call(A.Prop(A.Call(A.Prop(V("this"), "add", False), [(V("d"), False)]), "show", False), []))])),
                                      ("show", A.FuncE([], False, [A.Return(A.IStr(["bal=", A.Call(A.Prop(A.Prop(V("this"), "bal", False), "type", True), [])]))])))),
                A.pr(A.Call(A.Prop(V(o), "twice", False), [(self.expr(INT, ctx, 2), False)])),
                A.pr(A.Prop(V(o), "bal", False)),
                A.pr(A.Bin("===", A.Call(A.Prop(V(o), "add", False), [(A.Int(0), False)]), V(o))),
            ]
        if k == 13:     # spread in every position plus collected rest in a parameter pattern
            self.feat("spread_everywhere")
            f, xs, ob = "sp" + s, "sx" + s, "so" + s
            return [
                A.FuncStmt(f, [A.ListE([(V("h"), False), (V("t"), False)], True), A.ObjectE([A.Pair(A.Str("k"), V("kv")), A.Single(V("more"), False, True)]), V("rest")], True,
                           [A.Return(A.lst(V("h"), V("t"), V("kv"), V("more"), V("rest")))]),
                A.Declare(V(xs), A.lst(A.Int(1), A.Int(2), A.Int(3))), A.Declare(V(ob), A.obj(("k", A.Str("v")), ("z", A.Int(0)))),
                A.pr(A.Call(V(f), [(A.ListE([(V(xs), True), (A.Int(4), False)], False), False), (A.ObjectE([A.Single(V(ob), True, False), A.Pair(A.Str("y"), A.Int(9))]), False), (V(xs), True)])),
                A.pr(V(xs)), A.pr(V(ob)),
            ]
        # aliasing
        self.feat("alias")
        a, b = "al" + s, "bl" + s
        return [
            A.Declare(V(a), A.lst(A.Int(1), A.lst(A.Int(2)))),
            A.Declare(V(b), V(a)),
            A.Assign(A.Index(V(b), A.Int(0)), self.expr(INT, ctx, 2)),
            A.Assign(A.Index(A.Index(V(a), A.Int(1)), A.Int(0)), A.Str("m")),
            A.pr(V(a)), A.pr(A.Bin("===", V(a), V(b))), A.pr(A.Bin("==", V(a), A.Bin("+", V(b), A.lst()))),
            A.pr(A.Bin("===", V(a), A.Bin("+", V(b), A.lst()))),
            A.OpAssign("+", V(a), A.lst(self.expr(INT, ctx, 2))),
            A.pr(V(a)), A.pr(V(b)), A.pr(A.Bin("===", V(a), V(b))),
            A.Declare(V("o" + a), A.obj(("k", V(b)))), A.OpAssign("+", A.Prop(V("o" + a), "k", False), A.lst(A.Int(0))),
            A.pr(V(b)), A.pr(A.Bin("===", A.Prop(V("o" + a), "k", False), V(b))),
        ]

    # ------------------------------------------------------------------ planned failures
    def failing_stmt(self, ctx):
        r = self.r
        V = A.Var
        vis = ctx.visible()
        ints = ctx.vars_of(INT)
        lists = [(n, t) for n, t in ctx.vars_kind("list")]
        objs = [(n, t) for n, t in ctx.vars_kind("obj")]
        k = r.randrange(0, 16)
        self.planned = k
        any_int = V(r.choice(ints)) if ints else A.Int(3)
        any_int2 = A.clone(any_int)
        if k == 0:
            return [A.pr(V("undefined_" + self.fresh("")))]
        if k == 1:
            return [A.pr(A.Bin(r.choice(["+", "-", "*", "<", "&&"]), any_int, A.Str("s")))]
        if k == 2 and lists:
            n, t = r.choice(lists)
            return [A.pr(A.Index(V(n), A.Int(t[2] + r.randrange(0, 3))))]
        if k == 3:
            return [A.pr(A.Bin(r.choice(["/", "%"]), any_int, A.Bin("-", A.Int(2), A.Int(2))))]
        if k == 4:
            return [A.pr(A.Bin("*", A.lit(2 ** 62), A.Bin("+", A.Int(2), A.Bin("*", any_int, A.Int(0)))))]
        if k == 5:
            return [A.ExprStmt(A.Call(any_int, []))]
        if k == 6:
            fns = ctx.vars_kind("fn")
            if fns:
                n, t = r.choice(fns)
                return [A.ExprStmt(A.Call(V(n), [(A.Int(1), False) for _ in range(len(t[1]) + 1)]))]
        if k == 7 and objs:
            n, t = r.choice(objs)
            return [A.pr(A.Prop(V(n), "missing", False))]
        if k == 8 and lists:
            n, t = r.choice(lists)
            return [A.Declare(A.lst(*[V(self.fresh("d")) for _ in range(t[2] + 1)]), V(n))]
        if k == 9:
            return [A.If([(any_int, [A.pr(A.Int(1))])], None)]
        if k == 10 and ctx.scopes[-1]:
            n = r.choice(list(ctx.scopes[-1]))
            if n not in ("this",) and n not in ctx.binders:
                return [A.Declare(V(n), A.Int(0))]
        if k == 11:
            return [A.pr(A.Index(A.Str("abc"), A.Int(-1)))]
        if k == 12:
            return [A.For(V("x" + self.fresh("")), any_int, [A.pr(A.Int(1))])]
        if k == 13:
            return [A.pr(A.IStr(["n=", any_int]))]
        if k == 14:
            return [A.pr(A.Bin("==", any_int, A.Str("1")))]
        if k == 15:
            return [A.Assign(V("nope" + self.fresh("")), A.Int(1))]
        return [A.pr(A.Prop(A.Null(), "type", True))]


def tlist_pair(kt, vt):
    # a [key, value] pair is a heterogeneous 2-list; generators only print it
    return ("pair", kt, vt)


def generate(seed, size=None, **kw):
    r = random.Random(seed)
    if size is None:
        size = r.choice([5, 10, 15, 25, 40, 60])
    g = Gen(seed, size=size, **kw)
    prog = g.program()
    return prog, g
