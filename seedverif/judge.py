"""Oracles shared by several checks: outcome comparison, diagnostic parsing."""

import re

from . import core

HDR = re.compile(r"^(?P<path>.*?):(?P<line>\d+):(?P<col>\d+): (?:in '(?P<func>[^']+)': )?(?P<msg>.+)$", re.S)
STACK_LINE = re.compile(r"^  (?P<path>.*?):(?P<line>\d+):(?P<col>\d+): in '(?P<func>[^']+)'$")

# CamelCase identifiers with at least two humps (EvalReturnExprFailed, ApplyBinOpFailed...)
INTERNAL_IDENT = re.compile(r"\b[A-Z][a-z0-9]+(?:[A-Z][a-z0-9]+)+\b")
STRUCT_DUMP = re.compile(r"\b\w+ \{ \w+: ")


class Diag:
    """Parsed stderr of a failing run."""

    def __init__(self, err, path="t.sd"):
        self.raw = err
        self.ok = False
        self.why = None
        self.line = self.col = None
        self.func = None
        self.msg = None
        self.stack = []
        try:
            text = err.decode("utf-8")
        except UnicodeDecodeError:
            text = err.decode("utf-8", "replace")
        self.text = text
        if not text.endswith("\n"):
            self.why = "stderr does not end with a newline"
            return
        body = text[:-1]
        prefix = path + ":"
        if not body.startswith(prefix):
            self.why = "stderr does not start with the script path"
            return
        # split off the stack trace (if any)
        head, sep, tail = body.partition("\nStacktrace:\n")
        m = re.match(r"^(\d+):(\d+): (?:in '([^']+)': )?(.+)$", head[len(prefix):], re.S)
        if not m:
            self.why = "header is not <path>:<line>:<col>: <message>"
            return
        self.line, self.col = int(m.group(1)), int(m.group(2))
        self.func = m.group(3)
        self.msg = m.group(4)
        if sep:
            for ln in tail.split("\n"):
                sm = STACK_LINE.match(ln)
                if not sm or sm.group("path") != path:
                    self.why = "malformed stack trace line %r" % ln
                    return
                self.stack.append(((int(sm.group("line")), int(sm.group("col"))), sm.group("func")))
        self.ok = True

    @property
    def pos(self):
        return (self.line, self.col)


def quoted_user_text_removed(msg, source=None):
    """Drop '...'-quoted, "..."-quoted and `...`-quoted segments (user text echoed in messages).
    When the script text is known, a quoted segment is user text only if it occurs in the script;
    anything else inside quotes was produced by the interpreter and stays subject to the test."""
    def drop(m):
        inner = m.group(0)[1:-1]
        if source is None or inner in source or inner.replace("\\n", "\n") in source or inner.replace("\n", "\\n") in source:
            return m.group(0)[0] * 2
        return " " + inner + " "
    msg = re.sub(r"'[^']*'", drop, msg)
    msg = re.sub(r'"[^"]*"', drop, msg)
    msg = re.sub(r"`[^`]*`", drop, msg)
    return msg


def internal_identifier(msg, source=None):
    """Return the offending internal-looking identifier in msg, or None."""
    bare = quoted_user_text_removed(msg, source)
    m = INTERNAL_IDENT.search(bare)
    if m:
        return m.group(0)
    m = STRUCT_DUMP.search(bare)
    if m:
        return m.group(0)
    return None


def atoms_in_order(msg, atoms):
    """Do the atoms occur in this order in the message?  Quoting style and surrounding
    words are free; alphanumeric atoms must stand alone as words (so `int` is not found
    inside `integer` or `print`)."""
    idx = 0
    for a in atoms:
        a = str(a)
        if a and (a[0].isalnum() or a[0] == "_") and (a[-1].isalnum() or a[-1] == "_"):
            m = re.compile(r"(?<![A-Za-z0-9_])" + re.escape(a) + r"(?![A-Za-z0-9_])").search(msg, idx)
            if not m:
                return False
            idx = m.end()
        else:
            j = msg.find(a, idx)
            if j < 0:
                return False
            idx = j + len(a)
    return True


def atoms_present(msg, atoms, ordered):
    """Message names all atoms; in the given order only where a property demands the order."""
    if ordered:
        return atoms_in_order(msg, atoms)
    return all(atoms_in_order(msg, [a]) for a in atoms)


def outcome_mismatch(obs, res):
    """Compare an observed execution with the model's result on stdout bytes and
    exit class.  Returns None if they agree, else a short description."""
    exp_code = 0 if res.ok else 103
    if obs.timeout:
        return "timeout"
    if obs.stack_overflow:
        return "stack overflow on a program whose documented evaluation is shallow (model: <= 40 nested calls / levels)"
    if obs.crashed:
        return "crash (exit %s): %s" % (obs.code, obs.err.decode("utf-8", "replace")[-300:])
    if obs.code != exp_code:
        return "exit status %s, expected %s (%s)" % (
            obs.code, exp_code,
            ("model error %s at %s" % (res.error.kind, res.error.pos)) if res.error else
            ("stderr: " + obs.err.decode("utf-8", "replace")[:300]))
    if obs.out != res.out:
        return "stdout differs from the documented semantics: " + first_diff(res.out, obs.out)
    return None


def first_diff(exp, got):
    el = exp.split(b"\n")
    gl = got.split(b"\n")
    for i in range(max(len(el), len(gl))):
        a = el[i] if i < len(el) else b"<end>"
        b = gl[i] if i < len(gl) else b"<end>"
        if a != b:
            return "line %d: expected %r, got %r" % (i + 1, a[:120], b[:120])
    return "same lines?"


def expected_brief(res):
    return {"exit": 0 if res.ok else 103, "stdout": res.out.decode("utf-8", "replace"),
            "error": None if res.ok else {"kind": res.error.kind, "pos": res.error.pos, "atoms": res.error.atoms,
                                          "stack": res.error.stack, "func": res.error.func}}


CONTROL = 'print("control")\n'


def confirm_hang(src, binary=None, name="t.sd"):
    """Re-run a timed-out case alone, twice, each next to a trivial control script.
    True only if the case never finishes while the control does.  After a few hangs have
    been confirmed in this run, further time-outs are not re-confirmed (returns None =
    inconclusive) so that a tree that hangs everywhere does not stall the harness."""
    import os
    binary = binary or core.BIN_VERIF
    marker = os.path.join(core.WORK, "hangs-%d" % os.getppid())
    try:
        confirmed = len(open(marker).read())
    except OSError:
        confirmed = 0
    if confirmed >= 3:
        return None
    for _ in range(2):
        o = core.run_one({"src": src, "bin": binary, "timeout": 40.0, "name": name})
        c = core.run_one({"src": CONTROL, "bin": binary, "timeout": 10.0})
        if not o.timeout:
            return False
        if c.timeout or c.code != 0:
            return False
    try:
        with open(marker, "a") as f:
            f.write("x")
    except OSError:
        pass
    return True
