"""AST shared by generators, printer and reference model.

Plain Python objects; generators build them, `printer.render` turns them into
source text (and records where every node and operator landed), `model.run`
evaluates them.
"""


class Node:
    __slots__ = ()

    def __repr__(self):
        fields = ", ".join("%s=%r" % (k, getattr(self, k)) for k in self.__slots__)
        return "%s(%s)" % (type(self).__name__, fields)


def _mk(name, fields):
    def __init__(self, *args, **kw):
        if len(args) > len(fields):
            raise TypeError("%s takes %d args" % (name, len(fields)))
        for k, v in zip(fields, args):
            object.__setattr__(self, k, v)
        for k in fields[len(args):]:
            if k in kw:
                object.__setattr__(self, k, kw.pop(k))
            else:
                raise TypeError("%s missing %s" % (name, k))
        if kw:
            raise TypeError("%s unexpected %s" % (name, list(kw)))
    return type(name, (Node,), {"__slots__": tuple(fields), "__init__": __init__})


# Expressions
Null = _mk("Null", [])
Bool = _mk("Bool", ["b"])
Int = _mk("Int", ["n"])                  # |n| <= 2**63-1 ; negative => literal minus
Str = _mk("Str", ["s"])                  # s: python str (decoded characters)
StrLit = _mk("StrLit", ["src", "s"])     # exact source spelling between the quotes + decoded value
IStr = _mk("IStr", ["parts"])            # parts: list of str | Node (slot expression)
RawSlot = _mk("RawSlot", ["text"])      # interpolation slot given as raw source text
Var = _mk("Var", ["name"])
Bin = _mk("Bin", ["op", "l", "r"])       # op: one of BINOPS
ListE = _mk("ListE", ["items", "collect"])   # items: [(expr, spread_bool)]
Index = _mk("Index", ["e", "i"])
RangeIndex = _mk("RangeIndex", ["e", "a", "b"])  # a, b: expr | None
Range = _mk("Range", ["a", "b"])
ObjectE = _mk("ObjectE", ["props"])      # props: [Pair | Single]
Pair = _mk("Pair", ["k", "v"])
Single = _mk("Single", ["e", "spread", "collect"])
Prop = _mk("Prop", ["e", "name", "type_prop"])
FuncE = _mk("FuncE", ["params", "collect", "body"])
Call = _mk("Call", ["f", "args"])        # args: [(expr, spread_bool)]
Paren = _mk("Paren", ["e"])              # explicit redundant parentheses

# Statements
Block = _mk("Block", ["body"])
ExprStmt = _mk("ExprStmt", ["e"])
Declare = _mk("Declare", ["l", "r"])
Assign = _mk("Assign", ["l", "r"])
OpAssign = _mk("OpAssign", ["op", "l", "r"])   # op in + - * / %
If = _mk("If", ["branches", "els"])      # branches: [(cond, body)], els: body | None
While = _mk("While", ["cond", "body"])
For = _mk("For", ["l", "it", "body"])
Break = _mk("Break", [])
Continue = _mk("Continue", [])
FuncStmt = _mk("FuncStmt", ["name", "params", "collect", "body"])
Return = _mk("Return", ["e"])

BINOPS = ["+", "-", "*", "/", "%", "&&", "||", "==", "!=", ">", ">=", "<", "<=", "===", "!=="]
OP_NAME = {
    "+": "Sum", "-": "Sub", "*": "Mul", "/": "Div", "%": "Mod",
    "&&": "And", "||": "Or", "==": "Eq", "!=": "Ne", ">": "Gt", ">=": "Gte",
    "<": "Lt", "<=": "Lte", "===": "RefEq", "!==": "RefNe",
}
# Tiers as stated by property C08: 5 postfix, 4 mul/compare, 3 add, 2 and/or, 1 range.
TIER = {
    "*": 4, "/": 4, "%": 4, "==": 4, "!=": 4, "<": 4, "<=": 4, ">": 4, ">=": 4,
    "===": 4, "!==": 4, "+": 3, "-": 3, "&&": 2, "||": 2,
}

KEYWORDS = ["break", "continue", "else", "false", "fn", "for", "if", "in",
            "null", "return", "true", "while"]


# Convenience constructors used all over the generators.
def call(f, *args):
    if isinstance(f, str):
        f = Var(f)
    return Call(f, [(a, False) for a in args])


def pr(e):
    return ExprStmt(call("print", e))


def lst(*items):
    return ListE([(i, False) for i in items], False)


def obj(*pairs):
    return ObjectE([Pair(k if isinstance(k, Node) else Str(k), v) for k, v in pairs])


def lit(v):
    """Python value -> literal expression (ints, bools, None, str, list, dict)."""
    if v is None:
        return Null()
    if v is True or v is False:
        return Bool(v)
    if isinstance(v, int):
        if v == -(2 ** 63):
            return Bin("-", Int(-(2 ** 63 - 1)), Int(1))
        return Int(v)
    if isinstance(v, str):
        return Str(v)
    if isinstance(v, (list, tuple)):
        return lst(*[lit(x) for x in v])
    if isinstance(v, dict):
        return obj(*[(k, lit(x)) for k, x in v.items()])
    raise TypeError(v)


def walk(node):
    """Yield every Node reachable from node (pre-order)."""
    stack = [node]
    while stack:
        n = stack.pop()
        if isinstance(n, Node):
            yield n
            for k in reversed(n.__slots__):
                stack.append(getattr(n, k))
        elif isinstance(n, (list, tuple)):
            for x in reversed(n):
                stack.append(x)


def clone(n):
    """Deep copy of a tree (positions are keyed by node identity, so a node
    object must occur only once in a program)."""
    if isinstance(n, Node):
        return type(n)(*[clone(getattr(n, k)) for k in n.__slots__])
    if isinstance(n, list):
        return [clone(x) for x in n]
    if isinstance(n, tuple):
        return tuple(clone(x) for x in n)
    return n
