"""Offline checker of the evaluator's statement event log (hook H3) against the
escape-propagation automaton of C07.

Events (one per line):  Q+ | Q- <esc> | S+ <kind> | S- <kind> <esc> | C+ <name> | C- <esc>
(other lines - B, K, E - are ignored here).  A log that stops early (an error ended
the program) leaves frames open; open frames are checked only as far as they got.
"""


class Frame:
    __slots__ = ("typ", "kind", "children", "esc", "closed", "parent", "index")

    def __init__(self, typ, kind, parent):
        self.typ = typ          # 'Q', 'S', 'C'
        self.kind = kind
        self.children = []
        self.esc = None
        self.closed = False
        self.parent = parent
        self.index = 0


def parse(trace):
    root = Frame("R", "root", None)
    cur = root
    errors = []
    ended_with_error = False
    for n, ln in enumerate(trace.split("\n")):
        if not ln:
            continue
        p = ln.split(" ")
        tag = p[0]
        if tag in ("Q+", "S+", "C+"):
            f = Frame(tag[0], p[1] if len(p) > 1 else "", cur)
            f.index = len(cur.children)
            cur.children.append(f)
            cur = f
        elif tag in ("Q-", "S-", "C-"):
            if cur.typ != tag[0]:
                errors.append("line %d: %s closes a %s frame" % (n + 1, ln, cur.typ))
                break
            if tag == "S-":
                if p[1] != cur.kind:
                    errors.append("line %d: %s closes statement %s" % (n + 1, ln, cur.kind))
                cur.esc = p[2]
            else:
                cur.esc = p[1]
            cur.closed = True
            cur = cur.parent
        elif tag == "E":
            ended_with_error = True
    return root, errors, ended_with_error


def path_of(f):
    out = []
    while f is not None and f.typ != "R":
        out.append("%s:%s" % (f.typ, f.kind) if f.kind else f.typ)
        f = f.parent
    return "/".join(reversed(out))


SIMPLE = {"expr", "declare", "assign", "opassign", "func"}


def check(trace):
    """Returns (violations, stats). violations: list of (rule, description)."""
    root, errors, ended = parse(trace)
    viol = [("log", e) for e in errors]
    stats = {"frames": 0, "signals": {}, "ended_with_error": ended}

    def direct_seqs(s):
        return [c for c in s.children if c.typ == "Q"]

    def visit(f):
        stats["frames"] += 1
        if f.typ == "Q":
            stmts = [c for c in f.children if c.typ == "S"]
            first = None
            for i, s in enumerate(stmts):
                if first is not None:
                    viol.append(("seq-continues-after-signal", "statement %d (%s) was entered after statement %d produced %s, at %s"
                                 % (i, s.kind, first[0], first[1], path_of(f))))
                    break
                if s.closed and s.esc != "none":
                    first = (i, s.esc)
            if f.closed:
                want = first[1] if first else "none"
                if all(s.closed for s in stmts) and f.esc != want:
                    viol.append(("seq-result", "sequence result is %s but its statements produced %s, at %s" % (f.esc, want, path_of(f))))
        elif f.typ == "S":
            seqs = direct_seqs(f)
            k = f.kind
            if f.closed:
                if k in SIMPLE and f.esc != "none":
                    viol.append(("simple-stmt-signal", "%s statement produced %s" % (k, f.esc)))
                if k in ("break", "continue", "return") and f.esc != k:
                    viol.append(("jump-stmt", "%s statement produced %s" % (k, f.esc)))
                if k == "block":
                    if len(seqs) != 1:
                        viol.append(("block-shape", "block ran %d bodies" % len(seqs)))
                    elif seqs[0].closed and f.esc != seqs[0].esc:
                        viol.append(("block-forward", "block body ended with %s but the block statement produced %s, at %s" % (seqs[0].esc, f.esc, path_of(f))))
                if k == "if":
                    if len(seqs) > 1:
                        viol.append(("if-shape", "if statement ran %d branches, at %s" % (len(seqs), path_of(f))))
                    want = seqs[0].esc if seqs and seqs[0].closed else "none"
                    if len(seqs) <= 1 and f.esc != want:
                        viol.append(("if-forward", "taken branch ended with %s but the if statement produced %s, at %s" % (want, f.esc, path_of(f))))
                if k in ("while", "for"):
                    if f.esc in ("break", "continue"):
                        viol.append(("loop-leaks", "%s statement produced %s, at %s" % (k, f.esc, path_of(f))))
                    if seqs and seqs[-1].closed:
                        last = seqs[-1].esc
                        want = "return" if last == "return" else "none"
                        if f.esc != want:
                            viol.append(("loop-result", "last iteration of %s ended with %s but the statement produced %s, at %s" % (k, last, f.esc, path_of(f))))
                    elif not seqs and f.esc != "none":
                        viol.append(("loop-result", "%s ran no iteration but produced %s" % (k, f.esc)))
            if k in ("while", "for"):
                for i, q in enumerate(seqs[:-1]):
                    if q.closed and q.esc in ("break", "return"):
                        viol.append(("loop-continues", "%s ran iteration %d after iteration %d ended with %s, at %s" % (k, i + 1, i, q.esc, path_of(f))))
                        break
            if f.closed and f.esc != "none":
                crossed = []
                g = f.parent
                while g is not None and g.typ != "C" and g.typ != "R":
                    if g.typ == "S":
                        crossed.append(g.kind)
                        if k in ("break", "continue") and g.kind in ("while", "for"):
                            break
                    g = g.parent
                if k in ("break", "continue", "return"):
                    key = "%s crossing %s" % (f.esc, ">".join(crossed) if crossed else "-")
                    stats["signals"][key] = stats["signals"].get(key, 0) + 1
        elif f.typ == "C":
            seqs = direct_seqs(f)
            if f.closed:
                if len(seqs) != 1:
                    viol.append(("call-shape", "call ran %d bodies" % len(seqs)))
                elif seqs[0].closed and seqs[0].esc != f.esc:
                    viol.append(("call-result", "function body ended with %s but the call saw %s" % (seqs[0].esc, f.esc)))
        for c in f.children:
            visit(c)

    visit(root)
    return viol, stats
