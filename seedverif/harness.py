"""Generic model-differential driver used by most checks.

A check module provides `build_case(desc) -> dict(prog=stmts, ...)`; `descs`
are small picklable descriptions (seeds, enumeration indices, tuples).  Workers
build the AST, render it, run the reference model and the real binary, and
compare at the process boundary.
"""

import importlib

from . import core, judge, model as M, printer as P


def _judge_case(modname, desc, opts):
    mod = importlib.import_module(modname)
    case = mod.build_case(desc)
    out = {"desc": desc, "viol": [], "inconclusive": None, "discard": None, "runs": 0,
           "meta": case.get("meta"), "tags": case.get("tags", [])}
    if case.get("skip"):
        out["discard"] = case["skip"]
        return out
    prog = case["prog"]
    layout = case.get("layout")
    r = P.render(prog, layout)
    out["sha"] = core.sha(r.text)
    if int(out["sha"][:4], 16) % 61 == 0 and len(r.text) < 1800:
        out["sample_src"] = r.text
    try:
        res = M.run(prog, r, **case.get("model_kw", {}))
    except M.ModelLimit as e:
        out["discard"] = "model limit: %s" % e
        return out
    out["ok"] = res.ok
    out["kind"] = None if res.ok else res.error.kind
    out["lines"] = res.out.count(b"\n")
    out["stmts"] = res.stmts
    out["events"] = res.events
    if case.get("expect_error") is not None:
        # the generator's own expectation about the model outcome (guards the generator)
        if case["expect_error"] != (not res.ok):
            out["discard"] = "generator expectation differs from model (%s)" % out["kind"]
            return out
    job = {"src": r.text}
    if opts.get("trace") or case.get("trace"):
        job["trace"] = True
    obs = core.run_one(job)
    out["runs"] += 1
    out["trace"] = obs.trace if (opts.get("keep_trace") or case.get("keep_trace")) else None
    prop_sig = case.get("sig", "model")

    def viol(sig, what, extra=None):
        c = {"src": r.text, "oracle": opts.get("oracle", "model-differential"), "desc": repr(desc)[:500],
             "expected": judge.expected_brief(res), "observed": obs.brief()}
        if extra:
            c.update(extra)
        out["viol"].append((sig, what, c))

    mm = judge.outcome_mismatch(obs, res)
    if mm == "timeout":
        if judge.confirm_hang(r.text):
            mm = "does not terminate although the documented semantics terminate"
        else:
            out["inconclusive"] = "timeout"
            return out
    if mm:
        obs2 = core.run_one({"src": r.text, "bin": core.BIN_PLAIN})
        out["runs"] += 1
        if judge.outcome_mismatch(obs2, res):
            kind = "crash" if obs.died else ("exit" if obs.code != (0 if res.ok else 103) else "stdout")
            viol("%s/%s" % (prop_sig, kind), mm)
        else:
            out["inconclusive"] = "mismatch not reproduced on the plain binary"
        return out
    if int(out["sha"][4:8], 16) % 40 == 0:
        # hooks-off parity: the unhooked binary must behave byte for byte like the hooked one
        obs_p = core.run_one({"src": r.text, "bin": core.BIN_PLAIN})
        out["runs"] += 1
        out["parity"] = True
        if not obs_p.timeout and (obs_p.code, obs_p.out, obs_p.err) != (obs.code, obs.out, obs.err):
            out["inconclusive"] = "hooks-on and hooks-off binaries disagree (instrumentation perturbs behaviour?)"
            return out
    if res.ok:
        if obs.err:
            viol(prop_sig + "/stderr-on-success", "successful run wrote to stderr")
    else:
        d = judge.Diag(obs.err)
        out["diag_ok"] = d.ok
        if not d.ok:
            if opts.get("check_format", True):
                viol(prop_sig + "/format", "diagnostic is not well formed: %s" % d.why)
        else:
            e = res.error
            if (opts.get("check_pos") or case.get("check_pos")) and e.pinned and e.pos is not None:
                if d.pos != tuple(e.pos):
                    viol("%s/pos/%s" % (prop_sig, e.kind.split(":")[0]),
                         "diagnostic for %s reports %s, the offending token is at %s" % (e.kind, d.pos, tuple(e.pos)))
            if (opts.get("check_atoms") or case.get("check_atoms")) and e.atoms:
                ordered = e.kind in ("InvalidOpTypes", "InvalidEqOpTypes")     # C16 demands operator, lhs type, rhs type in order
                if not judge.atoms_present(d.msg, e.atoms, ordered):
                    viol("%s/atoms/%s" % (prop_sig, e.kind.split(":")[0]),
                         "message %r does not name %s%s" % (d.msg, e.atoms, " in order" if ordered else ""))
            if opts.get("check_diag") or case.get("check_diag"):
                for sig, what in diag_problems(d, e, r):
                    viol("%s/%s" % (prop_sig, sig), what)
    if case.get("post"):
        # extra check-specific judgement: fn(case, rendered, model_result, obs) -> [(sig, what)]
        for sig, what in getattr(mod, case["post"])(case, r, res, obs):
            viol(sig, what)
    return out


def diag_problems(d, e, r):
    """Format / context / stack-trace predicates of C17 on a parsed diagnostic `d`
    against the model error `e` (rendered program `r`)."""
    out = []
    kind = e.kind.split(":")[0]
    nlines = r.text.count("\n") + 1
    if not (1 <= d.line <= nlines + 1):
        out.append(("diag/line-range", "reported line %d is outside the script (%d lines)" % (d.line, nlines)))
    if "\nt.sd:" in (d.msg or ""):
        out.append(("diag/two-headers", "more than one located header line"))
    if "\n" in judge.quoted_user_text_removed(d.msg or "", r.text):
        out.append(("diag/message-lines", "the diagnostic's message runs over more than one line: %r" % (d.msg[:200],)))
    bad = judge.internal_identifier(d.msg, r.text)
    if bad:
        out.append(("diag/internal-identifier", "message exposes an internal identifier %r: %r" % (bad, d.msg[:200])))
    in_slot = e.kind.startswith("Slot:")
    if not in_slot:
        if (d.func or None) != (e.func or None):
            out.append(("diag/context/" + kind, "header context is %r, innermost active function is %r" % (d.func, e.func)))
    exp_stack = [(tuple(p) if p else None, c) for p, c in (e.stack or [])]
    if any(p is None for p, _ in exp_stack):
        if len(d.stack) != len(exp_stack) or [c for _, c in d.stack] != [c for _, c in exp_stack]:
            out.append(("diag/stack-callers/" + kind, "stack trace callers %s, active calls %s" % ([c for _, c in d.stack], [c for _, c in exp_stack])))
    elif d.stack != exp_stack:
        out.append(("diag/stack/" + kind, "stack trace is %s, active calls (innermost first) are %s" % (d.stack, exp_stack)))
    return out


def _worker(arg):
    modname, desc, opts = arg
    try:
        return _judge_case(modname, desc, opts)
    except Exception as e:       # harness error: never a violation
        import traceback
        return {"desc": desc, "viol": [], "inconclusive": "harness error: %s" % traceback.format_exc()[-600:],
                "discard": None, "runs": 0, "meta": None, "tags": []}


def run_cases(rep, modname, descs, opts=None, on_result=None, nontrivial=None, chunksize=8):
    """Drive all descs through the worker pool and fold results into the report."""
    opts = opts or {}
    args = [(modname, d, opts) for d in descs]
    n_ok = 0
    for res in core.pool().imap_unordered(_worker, args, chunksize=chunksize):
        rep.evaluations += 1
        rep.process_runs += res["runs"]
        if res["discard"]:
            rep.discards += 1
            rep.tally("discards", str(res["discard"])[:60])
            continue
        if res["inconclusive"]:
            rep.note_inconclusive(res["inconclusive"][:300], {"desc": repr(res["desc"])[:200]})
            continue
        for sig, what, case in res["viol"]:
            rep.violation(sig, what, case)
        rep.probe_observations += res.get("lines", 0)
        for t in res.get("tags", []):
            rep.tally("tags", t)
        rep.tally("outcome", "ok" if res.get("ok") else "error:" + str(res.get("kind")))
        if res.get("parity"):
            rep.tally("hooks_off_parity", "compared_equal")
        if nontrivial is None or nontrivial(res):
            if res.get("sha"):
                rep.distinct.add(res["sha"])
        if res.get("sample_src") and sum(1 for x in rep.samples if isinstance(x, dict) and x.get("actual_case")) < 3:
            rep.samples.insert(0, {"actual_case": True, "desc": repr(res["desc"])[:300], "source": res["sample_src"],
                                   "model_outcome": "ok" if res.get("ok") else "error:%s" % res.get("kind"), "verdict": "agrees with the interpreter"})
        if on_result:
            on_result(res)
        n_ok += 1
    return n_ok
