"""Layout-pair machinery shared by C09 (layout never changes meaning) and C18
(positions are the true line/column of the offending token)."""

import random
import re

from . import astdump, core, failgen as F, judge, model as M, printer as P, progen as G, reflex, sast as A

HEADER = re.compile(r"^t\.sd:(\d+):(\d+):", re.M)
STACKL = re.compile(r"^  t\.sd:(\d+):(\d+):", re.M)
CITE = re.compile(r"(?<=at )\[(\d+):(\d+)\]")
ANYPOS = re.compile(r"(?:(?<=t\.sd:)|(?<=\[))(\d+):(\d+)")


def toks_of(r):
    return [it for it in r.items if isinstance(it, P.Tok)]


def map_pos(pos, ra, rb):
    """Map a position reported under layout A to where the same token sits under layout B."""
    ta, tb = [t for t in toks_of(ra) if not t.optional], [t for t in toks_of(rb) if not t.optional]
    l, c = pos
    best = None
    for i, t in enumerate(ta):
        if t.line == l and t.col <= c and (best is None or t.col > ta[best].col):
            best = i
    if best is None:
        return None
    delta = c - ta[best].col
    return (tb[best].line, tb[best].col + delta)


def map_stderr(err, ra, rb):
    """Rewrite every position in a diagnostic (header, stack-trace lines, [l:c] citations)
    from layout A to layout B.  Returns None if a position cannot be mapped."""
    text = err.decode("utf-8", "replace")
    failed = []

    def sub_at(m):
        np = map_pos((int(m.group(1)), int(m.group(2))), ra, rb)
        if np is None:
            failed.append(m.group(0))
            return m.group(0)
        return m.group(0)[:m.start(1) - m.start(0)] + "%d:%d" % np + m.group(0)[m.end(2) - m.start(0):]

    text = HEADER.sub(sub_at, text, count=1)
    text = STACKL.sub(sub_at, text)
    text = CITE.sub(sub_at, text)
    if failed:
        return None
    return text


def strip_positions(err):
    text = err.decode("utf-8", "replace")
    return re.sub(r"\d+:\d+", "L:C", text)


def strip_numbers(msg):
    return re.sub(r"\d+", "N", msg or "")


def layouts_for(rng, k, systematic_token=None):
    lays = []
    for _ in range(k):
        lays.append(P.Layout.random(rng.random()))
        lays[-1].p_paren = 0.0
    if systematic_token is not None:
        lays.append(P.Layout(seed=rng.random(), break_after=[systematic_token]))
    return lays


def source_program(kind, seed):
    """A generated program the reference model can run within its budget (the model is
    used here only as a termination filter and to recognise unpinned positions)."""
    for attempt in range(20):
        if kind == "progen":
            prog, g = G.generate(seed + attempt, size=random.Random(seed).choice([4, 8, 14, 25]))
        else:
            prog, meta = F.generate(seed + attempt)
        try:
            M.run(prog, P.render(prog), fuel=8000)
            return prog
        except M.ModelLimit:
            continue
    return [A.pr(A.Int(1))]


UNPINNED_KINDS = ("Slot:", "SlotParseFailed", "InterpolatedValueNotString", "StringConstructionFailed")


def expected_tokens(r):
    out = []
    for k, v, l, c in r.tokens:
        if k == "IntLiteral":
            v = str(v)
        out.append((k, v, l, c))
    return out


def work(arg):
    """One shard: several programs x several layouts.  Returns violations and tallies."""
    seed, nprog, nlay, mode = arg
    rng = random.Random(seed)
    res = {"viol": [], "runs": 0, "inputs": 0, "shas": set(), "tally": {}, "inconclusive": 0}

    def tally(k, n=1):
        res["tally"][k] = res["tally"].get(k, 0) + n

    def viol(sig, what, src, extra=None):
        c = {"src": src, "oracle": mode}
        if extra:
            c.update(extra)
        res["viol"].append((sig, what, c))

    cases = []
    for _ in range(nprog):
        kind = rng.choice(["progen", "progen", "failgen"])
        pseed = rng.randrange(1 << 40)
        prog = source_program(kind, pseed)
        ra = P.render(prog, P.Layout())
        sysname = rng.choice(P.CONTINUATION) if rng.random() < 0.7 else None
        rbs = [P.render(prog, lay) for lay in layouts_for(rng, nlay, sysname)]
        cases.append((kind, pseed, prog, ra, rbs, sysname))
    if cases:
        res["sample"] = {"canonical_layout": cases[0][3].text[:700], "variant": cases[0][4][0].text[:900]}
    # --- front end: tokens and tree under every layout (hooks)
    texts = []
    for kind, pseed, prog, ra, rbs, sysname in cases:
        for r in [ra] + rbs:
            texts.append(r.text)
    tok_lines = core._dump_shard(("tokens", texts, core.BIN_VERIF))
    ast_lines = core._dump_shard(("ast", texts, core.BIN_VERIF))
    idx = 0
    for kind, pseed, prog, ra, rbs, sysname in cases:
        for r in [ra] + rbs:
            tl, al = tok_lines[idx], ast_lines[idx]
            idx += 1
            res["inputs"] += 1
            res["shas"].add(core.sha(r.text)[:12])
            toks, err, _ = reflex.parse_dump(tl)
            exp = expected_tokens(r)
            if toks is None or err:
                viol("tokens/error", "layout variant does not tokenise: %s" % (err,), r.text)
                continue
            got_kv = [(k, v) for k, v, _, _ in toks]
            exp_kv = [(k, v) for k, v, _, _ in exp]
            if got_kv != exp_kv:
                j = next((i for i, (a, b) in enumerate(zip(got_kv, exp_kv)) if a != b), min(len(got_kv), len(exp_kv)))
                viol("tokens/stream", "token %d is %s under this layout, expected %s" % (
                    j, got_kv[j] if j < len(got_kv) else None, exp_kv[j] if j < len(exp_kv) else None), r.text)
                continue
            if toks != exp:
                j = next(i for i, (a, b) in enumerate(zip(toks, exp)) if a != b)
                viol("positions/token", "token %s reported at %s, it was written at %s" % (toks[j][0], toks[j][2:], exp[j][2:]), r.text)
                continue
            want = "ok|" + astdump.dump(prog, r)
            if al != want:
                if astdump.strip_pos(al) != astdump.strip_pos(want):
                    viol("tree/changed", "the parsed program changes under this layout", r.text, {"expected_tree": want, "observed_tree": al})
                else:
                    viol("positions/node", "a syntax-tree node carries a position different from where its first token was written: %s" % first_pos_diff(al, want), r.text)
            for it in r.items:
                if isinstance(it, P.Tok):
                    pass
        if sysname:
            tally("break_after:" + sysname)
    # --- CLI: behaviour under every layout
    jobs = []
    for kind, pseed, prog, ra, rbs, sysname in cases:
        for r in [ra] + rbs:
            jobs.append({"src": r.text})
    obs = [core.run_one(j) for j in jobs]
    res["runs"] += len(obs)
    idx = 0
    for kind, pseed, prog, ra, rbs, sysname in cases:
        oa = obs[idx]
        idx += 1
        try:
            model_res = M.run(prog, ra)
        except M.ModelLimit:
            model_res = None
        slot_error = (model_res is not None and model_res.error is not None and
                      model_res.error.kind.startswith(UNPINNED_KINDS))
        for rb in rbs:
            ob = obs[idx]
            idx += 1
            if oa.timeout or ob.timeout or oa.stack_overflow or ob.stack_overflow:
                res["inconclusive"] += 1
                continue
            if oa.crashed or ob.crashed:
                viol("crash", "crash under a layout variant", rb.text, {"observed": ob.brief()})
                continue
            tally("cli_pairs")
            if ob.code != oa.code or ob.out != oa.out:
                viol("behaviour", "re-laying out the program changes its behaviour: exit %s vs %s; %s" % (
                    oa.code, ob.code, judge.first_diff(oa.out, ob.out)), rb.text, {"canonical_layout": ra.text, "observed": ob.brief()})
                continue
            if oa.code == 103:
                tally("failing_pairs")
                mapped = None if slot_error else map_stderr(oa.err, ra, rb)
                if mapped is None:
                    tally("unmappable_position")
                    if strip_positions(oa.err) != strip_positions(ob.err):
                        viol("message", "diagnostic text differs between layouts", rb.text, {"canonical_layout": ra.text, "a": oa.err.decode("utf-8", "replace"), "b": ob.err.decode("utf-8", "replace")})
                elif mapped != ob.err.decode("utf-8", "replace"):
                    da, db = judge.Diag(oa.err), judge.Diag(ob.err)
                    located_ok = (da.ok and db.ok and map_pos(da.pos, ra, rb) == db.pos and
                                  [map_pos(p, ra, rb) for p, _ in da.stack] == [p for p, _ in db.stack] and
                                  [c for _, c in da.stack] == [c for _, c in db.stack] and da.func == db.func)
                    if located_ok and strip_numbers(da.msg) == strip_numbers(db.msg):
                        # header and stack trace moved correctly; the message cites a position in a format we do not parse
                        tally("message_numbers_not_mapped")
                    elif strip_positions(oa.err) != strip_positions(ob.err):
                        viol("message", "diagnostic text differs between layouts", rb.text, {"canonical_layout": ra.text, "a": oa.err.decode("utf-8", "replace"), "b": ob.err.decode("utf-8", "replace")})
                    else:
                        viol("positions/moved", "a reported position did not move with its token: expected %r, got %r" % (mapped[:200], ob.err.decode("utf-8", "replace")[:200]),
                             rb.text, {"canonical_layout": ra.text})
                # absolute check against the token map for pinned categories
                if mode == "C18" and model_res is not None and model_res.error is not None:
                    d = judge.Diag(ob.err)
                    e = M.run(prog, rb).error
                    if d.ok and e is not None and e.pinned and e.pos is not None:
                        tally("pinned:" + e.kind.split(":")[0])
                        if d.pos != tuple(e.pos):
                            viol("positions/pinned/" + e.kind.split(":")[0], "%s reported at %s, the offending token is at %s" % (e.kind, d.pos, tuple(e.pos)), rb.text)
                    # every stack-trace line is the position of a call, whatever the category of the error itself
                    if d.ok and e is not None and e.stack and all(p is not None for p, _ in e.stack):
                        tally("stack_lines:" + ("pinned" if e.pinned else "other"))
                        if [p for p, _ in d.stack] != [tuple(p) for p, _ in e.stack]:
                            viol("positions/stack", "stack-trace positions %s, the calls are at %s" % ([p for p, _ in d.stack], [tuple(p) for p, _ in e.stack]), rb.text)
    return res


def first_pos_diff(a, b):
    pa = re.findall(r"\((\w+)@(\d+:\d+)", a)
    pb = re.findall(r"\((\w+)@(\d+:\d+)", b)
    for x, y in zip(pa, pb):
        if x != y:
            return "%s has %s, token map says %s" % (x[0], x[1], y[1])
    return "?"


# --------------------------------------------------------------------------- newline == ';'

def newline_work(arg):
    """Insert a line break after a token in mid-statement; it must behave exactly like `;`
    there (for continuation tokens: exactly like nothing)."""
    seed, nprog = arg
    rng = random.Random(seed)
    res = {"viol": [], "runs": 0, "inputs": 0, "shas": set(), "tally": {}, "inconclusive": 0}
    variants = []
    for _ in range(nprog):
        prog = source_program("progen", rng.randrange(1 << 40))
        r = P.render(prog, P.Layout(seed=rng.random(), p_ws=0.2, compact=rng.random() < 0.5))
        items = r.items
        cand = [i for i, it in enumerate(items) if isinstance(it, P.Tok) and i + 1 < len(items) and isinstance(items[i + 1], P.Tok)]
        if not cand:
            continue
        for i in rng.sample(cand, min(6, len(cand))):
            it = items[i]
            off = it.offset + len(it.text)
            base = r.text
            is_cont = it.kind in P.CONT_KINDS
            with_nl = base[:off] + rng.choice(["\n", " \n  ", "\r\n", " # c\n"]) + base[off:]
            with_semi = base[:off] + " ; " + base[off:]
            variants.append((it.kind, is_cont, base, with_nl, with_semi, (it.line, it.col)))
    texts = []
    for v in variants:
        texts += [v[2], v[3], v[4]]
    tok_lines = core._dump_shard(("tokens", texts, core.BIN_VERIF))
    ast_lines = core._dump_shard(("ast", texts, core.BIN_VERIF))
    cli = []
    for k, (kind, is_cont, base, with_nl, with_semi, tpos) in enumerate(variants):
        res["inputs"] += 1
        res["shas"].add(core.sha(with_nl)[:12])
        tb, tn, ts = (reflex.parse_dump(tok_lines[3 * k + j]) for j in range(3))
        ab, an, as_ = (ast_lines[3 * k + j] for j in range(3))
        kv = lambda t: None if t[0] is None else ([(a, b) for a, b, _, _ in t[0]], t[1] and t[1][0])
        if is_cont:
            res["tally"]["cont:" + kind] = res["tally"].get("cont:" + kind, 0) + 1
            if kv(tn) != kv(tb):
                res["viol"].append(("newline/continuation/" + kind, "a line break after %s changes the token stream (it must continue the statement)" % kind,
                                    {"src": with_nl, "oracle": "newline after continuation token", "without_break": base}))
            elif kv(ts) != kv(tn):
                res["viol"].append(("newline/continuation-semicolon/" + kind, "after %s a `;` tokenises differently from a line break (newline equals `;`)" % kind,
                                    {"src": with_semi, "oracle": "newline == ; after a continuation token", "with_newline": with_nl}))
            elif astdump.strip_pos(an) != astdump.strip_pos(ab):
                res["viol"].append(("newline/continuation-tree/" + kind, "a line break after %s changes the parsed program" % kind,
                                    {"src": with_nl, "oracle": "newline after continuation token", "without_break": base}))
        else:
            res["tally"]["term:" + kind] = res["tally"].get("term:" + kind, 0) + 1
            exp_kinds = None
            if tb[0] is not None and not tb[1]:
                j = next((q for q, t in enumerate(tb[0]) if (t[2], t[3]) == tpos), None)
                if j is not None:
                    exp_kinds = [t[0] for t in tb[0][:j + 1]] + ["StmtEnd"] + [t[0] for t in tb[0][j + 1:]]
            if exp_kinds is not None and tn[0] is not None and not tn[1] and [t[0] for t in tn[0]] != exp_kinds:
                res["viol"].append(("newline/not-a-terminator/" + kind, "a line break after %s (not a continuation token) does not end the statement" % kind,
                                    {"src": with_nl, "oracle": "newline after non-continuation token yields a statement end", "without_break": base}))
            elif kv(tn) != kv(ts):
                res["viol"].append(("newline/terminator/" + kind, "a line break after %s does not tokenise like `;` there" % kind,
                                    {"src": with_nl, "oracle": "newline == ;", "with_semicolon": with_semi}))
            else:
                cn, cs = an.split("|")[:2], as_.split("|")[:2]
                if astdump.strip_pos(an) != astdump.strip_pos(as_) and not (cn[0] == "err" and cs[0] == "err" and cn[1] == cs[1]):
                    res["viol"].append(("newline/terminator-tree/" + kind, "a line break after %s parses differently from `;` there" % kind,
                                        {"src": with_nl, "oracle": "newline == ;", "with_semicolon": with_semi}))
                res["tally"]["term-accepted" if an.startswith("ok|") else "term-rejected"] = res["tally"].get("term-accepted" if an.startswith("ok|") else "term-rejected", 0) + 1
            if rng.random() < 0.15:
                cli.append((kind, with_nl, with_semi))
    for kind, a, b in cli:
        oa = core.run_one({"src": a, "timeout": 5.0})
        ob = core.run_one({"src": b, "timeout": 5.0})
        res["runs"] += 2
        if oa.timeout or ob.timeout:
            continue
        # (these texts are arbitrary edits of valid programs, not filtered by the model: a program that
        #  builds and prints a cyclic value aborts in both spellings alike - outside every quantifier.
        #  Only a difference between the two spellings matters here.)
        if oa.crashed and ob.crashed:
            res["tally"]["both-spellings-abort-alike"] = res["tally"].get("both-spellings-abort-alike", 0) + 1
        elif (oa.code, oa.out, strip_positions(oa.err)) != (ob.code, ob.out, strip_positions(ob.err)):
            res["viol"].append(("newline/terminator-behaviour/" + kind, "a line break after %s behaves differently from `;` there" % kind,
                                {"src": a, "oracle": "newline == ;", "with_semicolon": b}))
    return res


# --------------------------------------------------------------------------- injected offending tokens

LEX_BAD = ["&", "@", "~", "é", "^", "?", "'", "`", "|", "!", "\\", "\x0b", "✓"]


def inject_work(arg):
    """Place an offending token (illegal character / token that can never appear there) at a
    known place in a re-laid-out program: the diagnostic must point exactly there."""
    seed, nprog = arg
    rng = random.Random(seed)
    res = {"viol": [], "runs": 0, "inputs": 0, "shas": set(), "tally": {}, "inconclusive": 0}
    for _ in range(nprog):
        prog = source_program(rng.choice(["progen", "failgen"]), rng.randrange(1 << 40))
        lay = P.Layout.random(rng.random())
        lay.p_paren = 0
        r = P.render(prog, lay)
        toks = toks_of(r)
        for _ in range(3):
            i = rng.randrange(len(toks))
            t = toks[i]
            kind = rng.choice(["lex", "lex", "in", "else"])
            prev = toks[i - 1] if i else None
            if kind == "in" and (t.text == "in" or (prev is not None and prev.text == "for")):
                kind = "lex"
            if kind == "else" and (prev is not None and prev.text == "}"):
                kind = "lex"
            if kind == "lex":
                ins = rng.choice(LEX_BAD)
                if ins in "|!&" and True:
                    ins = ins + " "
                else:
                    ins = ins + rng.choice(["", " "])
            else:
                ins = kind + " "
            # tokens inside an interpolated string are not tokens of the file
            shift = 0
            if t.offset > 0 and P._wordch(r.text[t.offset - 1]) and P._wordch(ins[0]):
                ins = " " + ins
                shift = 1
            text = r.text[:t.offset] + ins + r.text[t.offset:]
            res["inputs"] += 1
            res["shas"].add(core.sha(text)[:12])
            o = core.run_one({"src": text})
            res["runs"] += 1
            cat = "lexical" if kind == "lex" else "parse"
            res["tally"][cat] = res["tally"].get(cat, 0) + 1
            if o.crashed:
                res["viol"].append(("crash", "crash", {"src": text, "oracle": "injected offending token"}))
                continue
            d = judge.Diag(o.err)
            if o.code != 103 or o.out or not d.ok:
                res["viol"].append(("inject/%s-not-rejected" % cat, "file with an offending %r before token %d must be rejected cleanly: exit %s stderr %r" % (ins, i, o.code, o.err[:160]),
                                    {"src": text, "oracle": "injected offending token"}))
            elif d.pos != (t.line, t.col + shift):
                res["viol"].append(("positions/%s" % cat, "%s error reported at %s, the offending token %r is at %s" % (cat, d.pos, ins.strip(), (t.line, t.col + shift)),
                                    {"src": text, "oracle": "injected offending token"}))
    return res
