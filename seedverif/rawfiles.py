"""Script files as raw bytes: byte-order marks, files that are not UTF-8, files cut inside a character, and a few
programs that store built-in functions in containers.  Used by C03 (rejected as a whole, nothing runs) and C02 (no crash)."""

from . import core

BASES = ['print("é")\n', '# é✓\nprint(1)\n', 'x := "✓😀"\nprint(x)\n', 'né := 1\n', 'print(1)\n# trailing é']
BAD_SEQS = [b"\xff", b"\xfe", b"\xc0\x80", b"\xed\xa0\x80", b"\x80", b"\xbf", b"\xf8\x88\x80\x80\x80", b"\xc3", b"\xe2\x9c", b"\xf0\x9f\x98", b"\xf4\x90\x80\x80"]


def cases():
    """[(name, bytes, kind)]  kind: 'not_utf8' (must be refused before anything runs), 'lexical' (refused with a located line), 'any' (must not crash)"""
    out = []
    for i, b in enumerate(BASES):
        raw = b.encode("utf-8")
        # cut the file inside every multi-byte character
        for cut in range(1, len(raw)):
            if raw[cut] & 0xC0 == 0x80:
                out.append(("cut_in_character:%d:%d" % (i, cut), raw[:cut], "not_utf8"))
        for j, bad in enumerate(BAD_SEQS):
            for where in ("start", "in_string_or_comment", "end"):
                if where == "start":
                    data = bad + raw
                elif where == "end":
                    data = raw + bad
                else:
                    k = max(raw.find(b'"'), raw.find(b"#")) + 1
                    data = raw[:k] + bad + raw[k:]
                out.append(("invalid_bytes:%d:%d:%s" % (i, j, where), data, "not_utf8"))
    for prog in ("print(1)\n", "x := 1\nprint(x)\n", "\n", ""):
        out.append(("bom_first", "﻿".encode("utf-8") + prog.encode(), "lexical"))
        out.append(("bom_twice", "﻿﻿".encode("utf-8") + prog.encode(), "lexical"))
        out.append(("bom_second_line", b"print(0)\n" + "﻿".encode("utf-8") + prog.encode(), "lexical"))
        out.append(("bom_in_string", ('print("﻿")\n' + prog).encode("utf-8"), "any"))
        out.append(("bom_in_comment", ("# ﻿\n" + prog).encode("utf-8"), "any"))
        out.append(("nul_between_statements", b"print(0)\n\x00\n" + prog.encode(), "lexical"))
        out.append(("utf16_le", ("﻿" + prog).encode("utf-16-le") if prog else b"\xff\xfe", "not_utf8" if prog else "not_utf8"))
    # built-in functions stored in containers and called from there (what they answer is not specified; they must not crash)
    for prog in ('o := {"size": "abc"->len, "p": print, "t": 1->type}\nprint(o.p)\no.p("x")\n', 'o := {"size": "abc"->len}\nprint(o.size())\n', 'o := {"size": "abc"->len}\nprint(o["size"]())\n',
                 'o := {"t": 1->type}\nprint(o.t())\n', 'xs := [print, "ab"->len]\nxs[0]("via list")\nprint(xs[1]())\n', 'o := {"p": print}\nq := o.p\nq(1)\no.p(2)\n',
                 'o := {"inner": {"len": "é"->len}}\nprint(o.inner.len())\n', 'f := [1]->type\no := {"f": f}\nprint(o.f() == f())\n', 'o := {"p": print}\nfor [k, v] in o {\n    v(k)\n}\n',
                 'fn call(g) {\n    return g()\n}\no := {"n": "abc"->len}\nprint(call(o.n))\n', 'o := {}\no.len = "xyz"->len\nprint(o.len())\nprint(o->type())\n'):
        out.append(("builtin_in_container", prog.encode("utf-8"), "any"))
    return out


def run(rep, prop):
    cs = cases()
    obs = core.run_many([{"src": data} for _, data, _ in cs])
    for (name, data, kind), o in zip(cs, obs):
        rep.evaluations += 1
        rep.process_runs += 1
        rep.tally("raw_files", name.split(":")[0])
        rep.distinct.add(core.sha(data)[:12])
        case = {"src": data.decode("utf-8", "replace"), "src_hex": data.hex(), "oracle": "raw script files", "observed": o.brief()}
        if o.timeout:
            rep.note_inconclusive("raw file %s: timeout" % name)
        elif o.died:
            rep.violation(("crash/raw-file/" if prop == "C02" else "C03/raw-file-crash/") + name.split(":")[0], "the interpreter crashed on a script file (%s): exit %s %s" % (name, o.code, o.err.decode("utf-8", "replace")[-200:]), case)
        elif prop == "C03" and kind in ("not_utf8", "lexical") and (o.code != 103 or o.out != b""):
            rep.violation("C03/raw-file-not-rejected/" + name.split(":")[0], "a file that is not a well-formed script (%s) must be refused as a whole: exit %s stdout %r stderr %r" % (name, o.code, o.out[:60], o.err[:120]), case)
    return len(cs)
