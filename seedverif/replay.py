"""Re-execute a stored violation case against the current tree."""
import json
import os

from . import core


def run(prop, mod, path):
    case = json.load(open(os.path.join(path, "case.json")))
    src_path = os.path.join(path, "case.sd")
    src = open(src_path, "rb").read() if os.path.exists(src_path) else b""
    if hasattr(mod, "replay"):
        return mod.replay(case, src)
    obs = core.run_one({"src": src, "bin": core.BIN_VERIF})
    print("what:", case.get("what"))
    print("observed exit=%s" % obs.code)
    print("stdout:\n" + obs.out.decode("utf-8", "replace"))
    print("stderr:\n" + obs.err.decode("utf-8", "replace"))
    exp = case.get("expected")
    if exp is not None:
        print("expected:", json.dumps(exp)[:2000])
        same = True
        if "exit" in exp and exp["exit"] != obs.code:
            same = False
        if "stdout" in exp and exp["stdout"].encode("utf-8") != obs.out:
            same = False
        if not same:
            print("VIOLATION property=%s replay=%s" % (prop, path))
            return 1
        print("case now matches its expectation")
        return 0
    if obs.crashed:
        print("VIOLATION property=%s replay=%s" % (prop, path))
        return 1
    return 0
