"""C15 - strings: exact escapes, interpolation equals concatenation, Unicode-safe."""

import itertools
import random

from .. import batch, core, judge, printer as P, reflex, sast as A

PROP = "C15"
V, I, S = A.Var, A.Int, A.Str

# (source spelling, decoded text)
PIECES = [("a", "a"), (" ", " "), ("é", "é"), ("✓", "✓"), ("😀", "😀"), ("\\\\", "\\"), ('\\"', '"'), ("\\$", "$"), ("\\n", "\n"),
          ("\\r", "\r"), ("\\x41", "A"), ("\\x00", "\x00"), ("\\x7f", "\x7f"), ("\\x7F", "\x7f"), ("\\x0a", "\n"), ("\\x24", "$"), ("\\x22", '"'),
          ("{", "{"), ("}", "}"), ("#", "#"), (";", ";"), ("\t", "\t"), ("'", "'"), ("\\x5c", "\\"), ("0", "0"), ("\n", "\n"),
          ("\r\n", "\r\n"), ("\r", "\r"), ("é\n", "é\n")]          # raw line breaks inside the literal: LF, CR LF, lone CR, after a multi-byte character
TEXT = [("", ""), ("a", "a"), ("é", "é"), ("✓ ", "✓ "), ("😀", "😀"), ("x=", "x="), ("\\$", "$"), ("\\\\", "\\"), ('\\"', '"'), ("{", "{"), ("}", "}"),
        ("\\n", "\n"), ("é✓😀é", "é✓😀é"), ("# ;", "# ;"), ("\\x41", "A"), ("é✓\n", "é✓\n"), ("\n", "\n"), ("x\r\ny", "x\r\ny")]      # the last three: raw line breaks inside an interpolated literal


def lines_of(s):
    """stdout lines of print(s) (s: decoded text)"""
    return s.split("\n")


def slot_exprs(k):
    """(expression, value) pairs safe inside ${...}"""
    sv = "sv%d" % k
    return [
        (lambda: V(sv), "é-val"),
        (lambda: S("lit"), "lit"),
        (lambda: S("{b}"), "{b}"),
        (lambda: A.Bin("+", V(sv), S("+")), "é-val+"),
        (lambda: A.Index(A.obj(("k", S("from-obj"))), S("k")), "from-obj"),
        (lambda: A.Call(A.Prop(I(1), "type", True), []), "int"),
        (lambda: A.IStr(["<", V(sv), ">"]), "<é-val>"),
        (lambda: A.IStr(["[", A.Str("other"), "]"]), "[other]"),
        (lambda: A.IStr(["<", A.Str("lit"), ">"]), "<lit>"),
        (lambda: A.call("sf%d" % k, S("q")), "qq"),
        (lambda: A.Index(A.lst(S("x"), S("y")), I(1)), "y"),
        (lambda: A.RangeIndex(S("é✓"), I(0), I(2)), "é"),
        (lambda: S(""), ""),
        (lambda: A.Prop(A.obj(("p", S("😀"))), "p", False), "😀"),
        (lambda: S('a"q"'), 'a"q"'),
        (lambda: S('5" nail'), '5" nail'),                      # an odd number of escaped quotes inside a slot
        (lambda: A.call("sf%d" % k, S('"')), '""'),
        (lambda: S('{"}'), '{"}'),
    ]


def make_probe(desc, k):
    if desc[0] == "lit":
        pieces = desc[1]
        src = "".join(p[0] for p in pieces)
        dec = "".join(p[1] for p in pieces)
        raw = dec.encode("utf-8")
        x = "s%d" % k
        stmts = [A.Declare(V(x), A.StrLit(src, dec)), A.pr(A.Bin("+", A.Bin("+", S("<"), V(x)), S(">"))),
                 A.pr(A.Call(A.Prop(V(x), "len", True), [])),
                 A.pr(A.Bin("==", V(x), S(dec))),        # the printer chooses an independent spelling for the same text
                 A.pr(A.Bin("==", A.Bin("+", V(x), V(x)), A.StrLit(src + src, dec + dec)))]
        exp = lines_of("<" + dec + ">") + [str(len(raw)), "true", "true"]
        # bytes: the for loop and index concatenation rebuild the string
        stmts += [A.Declare(V("n" + x), I(0)), A.Declare(V("acc" + x), S("")),
                  A.For(A.lst(V("i" + x), V("c" + x)), V(x), [A.OpAssign("+", V("n" + x), I(1)), A.OpAssign("+", V("acc" + x), V("c" + x))]),
                  A.pr(V("n" + x)), A.pr(A.Bin("==", V("acc" + x), V(x)))]
        exp += [str(len(raw)), "true"]
        if raw:
            mid = len(raw) // 2
            stmts.append(A.pr(A.Bin("==", A.Bin("+", A.RangeIndex(V(x), None, I(mid)), A.RangeIndex(V(x), I(mid), None)), V(x))))
            exp.append("true")
        return {"stmts": stmts, "expect": exp, "tag": "literal", "what": "literal %r" % src}
    if desc[0] == "interp":
        _, texts, slots = desc      # texts: n+1 indices into TEXT; slots: n indices into slot_exprs
        se = slot_exprs(k)
        sv = "sv%d" % k
        pre = [A.Declare(V(sv), S("é-val")), A.FuncStmt("sf%d" % k, [V("a")], False, [A.Return(A.Bin("+", V("a"), V("a")))])]
        parts = []
        concat = None
        value = ""
        for i, ti in enumerate(texts):
            parts.append(TEXT[ti])
            value += TEXT[ti][1]
            piece = S(TEXT[ti][1])
            concat = piece if concat is None else A.Bin("+", concat, piece)
            if i < len(slots):
                fn, val = se[slots[i]]
                parts.append(fn())
                value += val
                concat = A.Bin("+", concat, fn())
        e = lambda: A.IStr([A.clone(p) if isinstance(p, A.Node) else p for p in parts])
        stmts = pre + [A.pr(A.Bin("+", A.Bin("+", S("<"), e()), S(">"))), A.pr(A.Bin("==", e(), concat)),
                       A.pr(A.Call(A.Prop(e(), "len", True), []))]
        exp = lines_of("<" + value + ">") + ["true", str(len(value.encode("utf-8")))]
        # a plain literal directly on either side of one `+`, and two interpolated literals around one `+`
        stmts += [A.pr(A.Bin("+", S("pre✓ "), e())), A.pr(A.Bin("+", e(), S(" post"))), A.pr(A.Bin("+", e(), e()))]
        exp += lines_of("pre✓ " + value) + lines_of(value + " post") + lines_of(value + value)
        return {"stmts": stmts, "expect": exp, "tag": "interp_%d_slots" % len(slots), "what": "interpolated %r" % (P.render([A.ExprStmt(A.call("print", e()))]).text.strip(),)}
    if desc[0] == "effects":
        _, nslots, same_text = desc
        c, nx = "cnt%d" % k, "nx%d" % k
        pre = [A.Declare(V(c), I(0)),
               A.FuncStmt(nx, [V("tag")], False, [A.OpAssign("+", V(c), I(1)), A.Return(A.Bin("+", V("tag"), A.Index(S("abcdefgh"), A.Bin("-", V(c), I(1)))))])]
        parts = ["<"]
        value = "<"
        for i in range(nslots):
            tag = "t" if same_text else "t%d" % i
            parts.append(A.call(nx, S(tag)))
            value += tag + "abcdefgh"[i]
            parts.append("|")
            value += "|"
        parts.append(">")
        value += ">"
        stmts = pre + [A.pr(A.IStr(parts)), A.pr(V(c)), A.pr(A.IStr([A.clone(p) if isinstance(p, A.Node) else p for p in parts]))]
        value2 = "<" + "".join(("t" if same_text else "t%d" % i) + "abcdefgh"[nslots + i] + "|" for i in range(nslots)) + ">"
        return {"stmts": stmts, "expect": [value, str(nslots), value2], "tag": "slot_side_effects", "what": "%d slots calling a counting function (%s slot text)" % (nslots, "identical" if same_text else "distinct")}
    if desc[0] == "lookalike":
        # text (or a slot value) that spells a slot of the same literal: it is plain text, never substituted
        variant = desc[1]
        sv, w = "sv%d" % k, "w%d" % k
        pre = [A.Declare(V(sv), S("é-val")), A.Declare(V(w), A.StrLit("\\${%s}" % sv, "${%s}" % sv))]
        look = ("\\${%s}" % sv, "${%s}" % sv)
        if variant == "text_before":
            parts, value = [look, " is ", V(sv)], "${%s} is é-val" % sv
        elif variant == "text_after":
            parts, value = [V(sv), " was ", look], "é-val was ${%s}" % sv
        elif variant == "value_before":
            parts, value = [V(w), "|", V(sv)], "${%s}|é-val" % sv
        elif variant == "value_after":
            parts, value = [V(sv), "|", V(w), "|", V(sv)], "é-val|${%s}|é-val" % sv
        else:
            parts, value = [look, look, V(sv), look], "${%s}${%s}é-val${%s}" % (sv, sv, sv)
        stmts = pre + [A.pr(A.IStr(parts)), A.pr(A.Call(A.Prop(A.IStr([A.clone(p) if isinstance(p, A.Node) else p for p in parts]), "len", True), []))]
        return {"stmts": stmts, "expect": [value, str(len(value.encode("utf-8")))], "tag": "slot_lookalike_text", "what": "text spelling a slot (%s)" % variant}
    if desc[0] == "slotkind":
        kind = desc[1]
        bad = {"int": I(1), "null": A.Null(), "bool": A.Bool(True), "list": A.lst(S("a")), "object": A.obj(), "func": V("print"),
               "lone_byte": A.Index(S("é"), I(0))}[kind]
        form = desc[2] if len(desc) > 2 else "text_around"
        if form == "lone_literal":
            st = [A.pr(A.IStr([bad]))]
        elif form == "lone_variable":
            st = [A.Declare(V("sk%d" % k), bad), A.pr(A.IStr([V("sk%d" % k)]))]
        elif form == "lone_variable_declared":
            st = [A.Declare(V("sk%d" % k), bad), A.Declare(V("sr%d" % k), A.IStr([V("sk%d" % k)])), A.pr(A.Call(A.Prop(V("sr%d" % k), "type", True), []))]
        elif form == "variable_first":
            st = [A.Declare(V("sk%d" % k), bad), A.pr(A.IStr([V("sk%d" % k), " post"]))]
        else:
            st = [A.pr(A.IStr(["é ", bad, " post"]))]
        return {"stmts": st, "expect": None, "tag": "slot_not_string", "what": "slot value of kind %s (%s)" % (kind, form)}
    if desc[0] == "bytes":
        ch = desc[1]
        x = "b%d" % k
        raw = ch.encode("utf-8")
        n = len(raw)
        stmts = [A.Declare(V(x), S(ch)), A.pr(A.Call(A.Prop(V(x), "len", True), [])),
                 A.pr(A.Bin("==", A.RangeIndex(V(x), I(0), I(n)), V(x))),
                 A.pr(A.Bin("==", A.RangeIndex(A.Paren(A.Bin("+", S("a"), V(x))), I(1), None), V(x))),
                 A.pr(A.Bin("==", A.Index(V(x), I(0)), A.RangeIndex(V(x), None, I(1)))),
                 A.pr(A.Bin("==", A.Index(V(x), I(n - 1)), A.Index(V(x), I(0))))]
        exp = [str(n), "true", "true", "true", "true" if raw[-1] == raw[0] else "false"]
        return {"stmts": stmts, "expect": exp, "tag": "bytes", "what": "byte access on %r" % ch}
    raise ValueError(desc)


def bad_literals():
    """(source text, (line, col) of the offending character, error kind)"""
    out = []
    pre = ["", "a", "é", "é✓😀", "\\n", "ab\\x41"]
    for p in pre:
        base = 'x := "' + p
        col0 = len(base) + 1          # column of the next character (characters, not bytes)
        out.append((base + '\\q"\n', (1, col0 + 1), "InvalidEscapeChar"))
        out.append((base + '\\é"\n', (1, col0 + 1), "InvalidEscapeChar"))
        for ch in "%{}'#;.-/()[]!?*+,:<=>@^_`|~& 0a":          # only \\ \" \$ \n \r \t \x.. are escapes
            if ch not in "nrtx":
                out.append((base + "\\" + ch + '"\n', (1, col0 + 1), "InvalidEscapeChar"))
        out.append((base + '\\xg1"\n', (1, col0 + 2), "InvalidHexChar"))
        out.append((base + '\\x1g"\n', (1, col0 + 3), "InvalidHexChar"))
        out.append((base + '\\x4é"\n', (1, col0 + 3), "InvalidHexChar"))
        out.append((base + '\\x4\u0141"\n', (1, col0 + 3), "InvalidHexChar"))      # U+0141: low byte is 'A'
        out.append((base + '\\x\u01314"\n', (1, col0 + 2), "InvalidHexChar"))      # U+0131: low byte is '1'
        out.append((base + '\\x\uff11\uff12"\n', (1, col0 + 2), "InvalidHexChar"))  # full-width digits
        out.append((base + '\\x+4"\n', (1, col0 + 2), "InvalidHexChar"))
        out.append((base + '\\x-1"\n', (1, col0 + 2), "InvalidHexChar"))
        out.append((base + '\\x 4"\n', (1, col0 + 2), "InvalidHexChar"))
        out.append((base + '\\x4+"\n', (1, col0 + 3), "InvalidHexChar"))
        out.append((base + '$"\n', (1, col0), "UnescapedDollar"))
        out.append((base + '${x}"\n', (1, col0), "UnescapedDollar"))
        ibase = 'x := $"' + p
        icol = len(ibase) + 1
        out.append((ibase + '$x"\n', (1, icol + 1), "InvalidInterpolationStart"))
        out.append((ibase + '$ {x}"\n', (1, icol + 1), "InvalidInterpolationStart"))
        out.append((ibase + '$é"\n', (1, icol + 1), "InvalidInterpolationStart"))
        out.append((ibase + '\\q"\n', (1, icol + 1), "InvalidEscapeChar"))
    # on a later line, after a multi-line string
    out.append(('y := "l1\nl2"\nx := "ab\\q"\n', (3, 10), "InvalidEscapeChar"))
    # on the second and third line of the literal itself
    out.append(('x := "l1\nab\\q"\n', (2, 4), "InvalidEscapeChar"))
    out.append(('x := "é\n\né✓\\xg1"\n', (3, 5), "InvalidHexChar"))
    out.append(('x := "l1 é\n  $"\n', (2, 3), "UnescapedDollar"))
    out.append(('x := $"l1 é\r\n ✓$x"\n', (2, 4), "InvalidInterpolationStart"))
    out.append(('print(1); x := $"a${"b"}\n\\q"\n', (2, 2), "InvalidEscapeChar"))
    out.append(('y := "é\n"; x := "$"\n', (2, 10), "UnescapedDollar"))
    return out


def run(rep, tier):
    from .. import scale
    scale.run(rep, PROP, tier)          # size ladders (seedverif/scale.py): the entries that concern this property
    rng = core.rng_for(PROP)
    descs = []
    nmax = 2
    for n in range(0, nmax + 1):
        for ps in itertools.product(PIECES, repeat=n):
            descs.append(("lit", ps))
    for _ in range(3000 if tier == "quick" else 120000):
        n = rng.choice([3, 4, 4, 6, 10])
        descs.append(("lit", tuple(rng.choice(PIECES) for _ in range(n))))
    nslotx = len(slot_exprs(0))
    for nslots in range(0, 4):
        combos = []
        for texts in itertools.product(range(len(TEXT)), repeat=nslots + 1):
            combos.append(texts)
        if len(combos) > (600 if tier == "quick" else 8000):
            combos = rng.sample(combos, 600 if tier == "quick" else 8000)
        for texts in combos:
            descs.append(("interp", texts, tuple(rng.randrange(nslotx) for _ in range(nslots))))
    for t in range(len(TEXT)):
        for s in range(nslotx):
            descs.append(("interp", (t, 0), (s,)))
            descs.append(("interp", (0, t), (s,)))
    for kind in ("int", "null", "bool", "list", "object", "func", "lone_byte"):
        descs.append(("slotkind", kind))
        for form in ("lone_literal", "lone_variable", "lone_variable_declared", "variable_first"):
            descs.append(("slotkind", kind, form))
    for variant in ("text_before", "text_after", "value_before", "value_after", "text_around"):
        descs.append(("lookalike", variant))
    for nslots in (1, 2, 3, 4):
        for same in (False, True):
            descs.append(("effects", nslots, same))
    for ch in ["a", "é", "✓", "😀", "é✓", "a😀b", "\x00", "ß日本"]:
        descs.append(("bytes", ch))
    rng.shuffle(descs)
    batch.run(rep, "seedverif.checks.c15", descs, "C15", oracle="Python decoding / concatenation")
    # malformed literals: whole-file rejection at the offending character
    bad = bad_literals()
    obs = core.run_many([{"src": t} for t, _, _ in bad])
    toks = core.run_dump("tokens", [t for t, _, _ in bad])
    for (t, pos, kind), o, tl in zip(bad, obs, toks):
        rep.evaluations += 1
        rep.process_runs += 1
        rep.tally("probes", "malformed_literal:" + kind)
        rep.distinct.add(core.sha(t)[:12])
        d = judge.Diag(o.err)
        _, err, _ = reflex.parse_dump(tl)
        if o.crashed or o.code != 103 or o.out or not d.ok:
            rep.violation("C15/malformed-not-rejected", "malformed literal must be rejected cleanly: %r -> exit %s %r" % (t, o.code, o.err[:120]), {"src": t, "observed": o.brief()})
        elif d.pos != pos:
            rep.violation("C15/malformed-position", "malformed literal %r reported at %s, the offending character is at %s" % (t, d.pos, pos), {"src": t, "observed": o.brief()})
        elif err is None or err[0] != kind:
            rep.violation("C15/malformed-kind", "malformed literal %r: lexer reports %s, expected %s" % (t, err, kind), {"src": t})
    # decoded values as seen by the lexer (token dump) for a sample of literals
    sample = [d for d in descs if d[0] == "lit"][:4000]
    texts = ['"' + "".join(p[0] for p in d[1]) + '"' for d in sample]
    for d, tl in zip(sample, core.run_dump("tokens", texts)):
        rep.evaluations += 1
        tk, err, _ = reflex.parse_dump(tl)
        dec = "".join(p[1] for p in d[1])
        if tk is None or err or len(tk) != 1 or tk[0][0] != "StrLiteral" or tk[0][1] != dec:
            rep.violation("C15/decoded-token", "lexer decodes %r as %r, expected %r" % (texts[0], tk, dec), {"src": '"' + "".join(p[0] for p in d[1]) + '"'})
    rep.tally("probes", "token_dump_literals", len(sample))
    rep.exhaustive = True
    rep.rule = ("string literals over %d source pieces (ASCII, 2/3/4-byte characters, every escape incl. \\xHH boundary values, braces, #, ;, raw newline) - all of length <= 2, random up to 10 pieces; "
                "interpolated strings with 0-3 slots in arrangements of %d text pieces (multi-byte text before/between/after slots) x %d slot expression forms (names, calls, index, +, nested interpolation, object and string literals with braces/quotes); "
                "non-string slot values; malformed literals with known offending positions. distinct probes by description; non-trivial = all") % (len(PIECES), len(TEXT), nslotx)
    rep.sample({"literal": '"é\\x41\\n"', "expected": "prints é A newline; len 4"})
    rep.sample({"interp": '$"é✓😀é${sv}x=${{"k": "from-obj"}["k"]}"', "expected": "== the concatenation of the pieces"})
    rep.sample({"malformed": 'x := "é\\xg1"', "expected": "rejected at 1:11 (the g)"})
    rep.require("probes observed", rep.probe_observations, 5000)
