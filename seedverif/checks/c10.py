"""C10 - `==` is a structural equivalence; `===` is identity; comparing never mutates.

Model-free: expectations come from a 30-line abstract equality written from the
statement, and from the laws (reflexive, symmetric, transitive, negation,
identity implies equality, construction-independence, mutation freedom)
checked on the printed matrices."""

import itertools
import random

from .. import core, judge, printer as P, sast as A

PROP = "C10"
V, I, S = A.Var, A.Int, A.Str


def tname(v):
    if v is None:
        return "null"
    if isinstance(v, bool):
        return "bool"
    if isinstance(v, int):
        return "int"
    if isinstance(v, str):
        return "string"
    if isinstance(v, list):
        return "list"
    if isinstance(v, dict):
        return "object"
    return "func"


class Fn:
    """marker for a function value in abstract values"""


def analyse(a, b, mism, other):
    """Collect reasons `a == b` is not plainly true: type-mismatched aligned pairs (mism)
    and value/shape differences (other)."""
    ta, tb = tname(a), tname(b)
    if ta != tb or ta == "func":
        mism.append((ta, tb))
        return
    if ta == "list":
        if len(a) != len(b):
            other.append("len")
        # (whether the length or the common prefix is looked at first is not specified)
        for x, y in zip(a, b):
            analyse(x, y, mism, other)
    elif ta == "object":
        if len(a) != len(b) or set(a) != set(b):
            other.append("keys")
        for k in a:
            if k in b:
                analyse(a[k], b[k], mism, other)
    elif a != b:
        other.append("value")


def abs_eq(a, b):
    """-> ('bool', v) | ('error', set of (ltype, rtype)) | ('either', set)   (either: traversal order decides)"""
    mism, other = [], []
    analyse(a, b, mism, other)
    if not mism:
        return ("bool", not other)
    if other:
        return ("either", set(mism))
    return ("error", set(mism))


# ------------------------------------------------------------------ the pool

def lit(v):
    return A.lit(v)


def make_pool(tier, rng):
    """[(name, setup statements, abstract value, identity token)]"""
    pool = []

    def add(stmts_fn, absval, ident=None):
        name = "p%d" % len(pool)
        pool.append((name, stmts_fn(name), absval, ident if ident is not None else name))
        return name

    atoms = [None, True, False, 0, 1, -1, "", "a", "b", "é", "ab", "ba"]
    for a in atoms:
        add(lambda n, a=a: [A.Declare(V(n), lit(a))], a)
    small = [None, True, 0, 1, "a", "b"] + ([False, "", "é", -1] if tier == "thorough" else [])
    lists = [[]] + [[x] for x in small] + [[x, y] for x in small[1:] for y in small[1:]]
    objs = [{}] + [{"a": x} for x in [0, 1, "a"]] + [{"b": x} for x in [0, "a"]] + [{"a": x, "b": y} for x in [0, 1] for y in [0, "a", None]]
    if tier == "quick":
        lists = lists[:6] + rng.sample(lists[6:], 8)
        objs = objs[:6] + rng.sample(objs[6:], 4)
    for v in lists + objs:
        add(lambda n, v=v: [A.Declare(V(n), lit(v))], v)
    nested = [[[]], [[0]], [[0], [1]], {"a": []}, {"a": [0]}, {"a": {"b": 0}}, [{"a": 0}], [{}, []], [[0, 1], "a"], {"a": [0], "b": {"a": 1}},
              [[[]]], [[], []], {"a": {}}, [{"a": []}], [[1], [1]], [None, [None]]]
    if tier == "thorough":
        nested += [[[], {}], [{"a": [0]}, {"a": [0]}], {"a": [[0]], "b": [[0]]}, [[0, 1], [0, 1]], [[1, 0], [0, 1]], {"b": {"b": {}}}, [{"a": None}], [None, None],
                   [[None], [None, None]], {"a": "a", "b": "b"}, {"a": "b", "b": "a"}, [["a"], ["b"]], [["a", "b"]], [[True], [False]], [{"": 0}], {"": {"": 0}},
                   [[[0]]], {"a": {"a": {"a": 0}}}, [[0, [1, [2]]]], {"b": [{"a": [0]}]}, [[], [[]], [[], []]]]
    for v in nested:
        add(lambda n, v=v: [A.Declare(V(n), lit(v))], v)
    # construction variants of the same abstract value
    add(lambda n: [A.Declare(V(n), A.obj())] + [A.Assign(A.Index(V(n), S(k)), lit(x)) for k, x in [("b", 0), ("a", 1)]], {"a": 1, "b": 0})
    add(lambda n: [A.Declare(V(n), A.obj())] + [A.Assign(A.Prop(V(n), k, False), lit(x)) for k, x in [("a", 1), ("b", 0)]], {"a": 1, "b": 0})
    add(lambda n: [A.Declare(V(n), A.ObjectE([A.Single(A.obj(("b", I(0))), True, False), A.Pair(S("a"), I(1))]))], {"a": 1, "b": 0})
    add(lambda n: [A.Declare(V(n), A.obj(("a", I(5)), ("b", I(0)), ("a", I(1))))], {"a": 1, "b": 0})
    add(lambda n: [A.Declare(V(n), A.Bin("+", A.lst(I(0)), A.lst(I(1))))], [0, 1])
    add(lambda n: [A.Declare(V(n), A.ListE([(A.lst(I(0), I(1)), True)], False))], [0, 1])
    add(lambda n: [A.Declare(V(n), A.Range(I(0), I(2)))], [0, 1])
    add(lambda n: [A.Declare(V(n), A.RangeIndex(A.lst(I(9), I(0), I(1)), I(1), None))], [0, 1])
    add(lambda n: [A.Declare(V(n), A.lst(I(7), I(1))), A.Assign(A.Index(V(n), I(0)), I(0))], [0, 1])
    add(lambda n: [A.Declare(V(n), A.Bin("+", S("a"), S("")))], "a")
    add(lambda n: [A.Declare(V(n), A.Index(S("ba"), I(1)))], "a")
    add(lambda n: [A.Declare(V(n), A.Bin("-", I(3), I(2)))], 1)
    add(lambda n: [A.Declare(V(n), A.Bin("==", I(1), I(1)))], True)
    # aliases and shared sub-structure
    base = add(lambda n: [A.Declare(V(n), A.lst(A.lst(I(0)), A.lst(I(0))))], [[0], [0]])
    add(lambda n: [A.Declare(V(n), V(base))], [[0], [0]], ident=base)
    add(lambda n: [A.Declare(V("sh"), A.lst(I(0))), A.Declare(V(n), A.lst(V("sh"), V("sh")))], [[0], [0]])
    add(lambda n: [A.Declare(V(n), A.lst(V("sh")))], [[0]])
    add(lambda n: [A.Declare(V(n), A.Index(V(base), I(0)))], [0])
    add(lambda n: [A.Declare(V(n), A.lst(V(base), V(base)))], [[[0], [0]], [[0], [0]]])
    add(lambda n: [A.Declare(V(n), A.obj(("a", V("sh")), ("b", V("sh"))))], {"a": [0], "b": [0]})
    ob = add(lambda n: [A.Declare(V(n), A.obj(("a", A.lst(I(0)))))], {"a": [0]})
    add(lambda n: [A.Declare(V(n), A.Index(A.lst(V(ob)), I(0)))], {"a": [0]}, ident=ob)
    add(lambda n: [A.Declare(V(n), A.obj(("a", V(ob))))], {"a": {"a": [0]}})
    # empty containers obtained by slicing / collecting (each must be a container of its own)
    add(lambda n: [A.Declare(V(n), A.RangeIndex(A.lst(I(1)), I(0), I(0)))], [])
    add(lambda n: [A.Declare(V(n), A.RangeIndex(A.lst(I(1)), I(1), I(1)))], [])
    add(lambda n: [A.Declare(A.ListE([(V(n), False)], True), A.lst())], [])
    add(lambda n: [A.Declare(A.ListE([(V("_"), False), (V(n), False)], True), A.lst(I(5)))], [])
    add(lambda n: [A.Declare(A.ObjectE([A.Single(V(n), False, True)]), A.obj())], {})
    add(lambda n: [A.Declare(A.ObjectE([A.Pair(S("a"), V("_")), A.Single(V(n), False, True)]), A.obj(("a", I(1))))], {})
    # an operand stored inside the other operand
    w1 = add(lambda n: [A.Declare(V(n), A.lst(A.lst()))], [[]])
    add(lambda n: [A.Declare(V(n), A.lst(V(w1)))], [[[]]])
    add(lambda n: [A.Declare(V(n), A.obj(("a", V(w1))))], {"a": [[]]})
    w2 = add(lambda n: [A.Declare(V(n), A.lst(I(1)))], [1])
    add(lambda n: [A.Declare(V(n), A.lst(V(w2)))], [[1]])
    add(lambda n: [A.Declare(V(n), A.lst(V(w2), V(w2)))], [[1], [1]])
    w3 = add(lambda n: [A.Declare(V(n), A.obj(("a", A.obj())))], {"a": {}})
    add(lambda n: [A.Declare(V(n), A.obj(("a", V(w3))))], {"a": {"a": {}}})
    add(lambda n: [A.Declare(V(n), A.lst(V(w3), V(w1)))], [{"a": {}}, [[]]])
    # functions (only at top level of an operand, or one level down)
    f1 = add(lambda n: [A.Declare(V(n), A.FuncE([], False, [A.Return(I(1))]))], Fn)
    add(lambda n: [A.Declare(V(n), V(f1))], Fn, ident=f1)
    # the same function value after a trip through a container (entry of an object literal, list item, shorthand, spread)
    add(lambda n: [A.Declare(V(n), A.Prop(A.obj(("on_click", V(f1))), "on_click", False))], Fn, ident=f1)
    add(lambda n: [A.Declare(V(n), A.Index(A.lst(I(0), V(f1)), I(1)))], Fn, ident=f1)
    add(lambda n: [A.Declare(V(n), A.Index(A.ObjectE([A.Single(V(f1), False, False)]), S(f1)))], Fn, ident=f1)
    add(lambda n: [A.Declare(V(n), A.Prop(A.ObjectE([A.Single(A.obj(("h", V(f1))), True, False)]), "h", False))], Fn, ident=f1)
    add(lambda n: [A.Declare(V(n), A.FuncE([], False, [A.Return(I(1))]))], Fn)
    add(lambda n: [A.Declare(V(n), V("print"))], "builtin")
    add(lambda n: [A.Declare(V(n), A.Index(A.lst(V("print")), I(0)))], "builtin")       # builtins are not cells: comparing two `print`s reaches a function pair
    add(lambda n: [A.Declare(V(n), A.Prop(S("abc"), "len", True))], "builtin")
    # the same function value sitting in two distinct containers, after an equal prefix
    add(lambda n: [A.Declare(V(n), A.lst(I(0), V(f1)))], [0, Fn])
    add(lambda n: [A.Declare(V(n), A.lst(I(0), V(f1)))], [0, Fn])
    add(lambda n: [A.Declare(V(n), A.obj(("a", I(0)), ("f", V(f1))))], {"a": 0, "f": Fn})
    add(lambda n: [A.Declare(V(n), A.obj(("a", I(0)), ("f", V(f1))))], {"a": 0, "f": Fn})
    add(lambda n: [A.Declare(V(n), A.lst(V("print")))], [Fn])
    # a container occurring twice in one operand, compared with look-alikes that differ late
    add(lambda n: [A.Declare(V(n), A.lst(V("sh"), V("sh"), V("sh")))], [[0], [0], [0]])
    add(lambda n: [A.Declare(V(n), A.lst(A.lst(I(0)), A.lst(I(0)), A.lst(I(1))))], [[0], [0], [1]])
    add(lambda n: [A.Declare(V(n), A.lst(A.lst(I(0)), A.lst(I(0)), A.lst(A.Bool(True))))], [[0], [0], [True]])
    add(lambda n: [A.Declare(V(n), A.obj(("a", V("sh")), ("b", V("sh"))))], {"a": [0], "b": [0]})
    add(lambda n: [A.Declare(V(n), A.obj(("a", A.lst(I(0))), ("b", A.lst(I(7)))))], {"a": [0], "b": [7]})
    return pool


def absval(v):
    if v is Fn or v == "builtin":
        return Fn()
    if isinstance(v, list):
        return [absval(x) for x in v]
    if isinstance(v, dict):
        return {k: absval(x) for k, x in v.items()}
    return v


def is_fn(v):
    """value is or contains a function (cannot be printed canonically / compared)"""
    if v is Fn or v == "builtin":
        return True
    if isinstance(v, list):
        return any(is_fn(x) for x in v)
    if isinstance(v, dict):
        return any(is_fn(x) for x in v.values())
    return False


def pool_setup(pool):
    out = []
    for name, stmts, av, ident in pool:
        out += stmts
    return out


def printable(pool):
    return [(n, av) for n, st, av, idn in pool if not is_fn(av)]


def classify(x, y):
    return abs_eq(absval(x), absval(y))


def row_work(arg):
    """Rows i0..i1 of the matrices for the unambiguous-boolean pairs; also prints all
    pool values before and after to observe mutation freedom."""
    tier, seed, i0, i1 = arg
    rng = random.Random(seed)
    pool = make_pool(tier, rng)
    prog = pool_setup(pool)
    pv = printable(pool)
    for n, _ in pv:
        prog.append(A.pr(V(n)))
    prog.append(A.pr(S("--matrix--")))
    cells = []
    for i in range(i0, min(i1, len(pool))):
        ni, _, ai, idi = pool[i]
        for j, (nj, _, aj, idj) in enumerate(pool):
            k = classify(ai, aj)
            if idi == idj and is_fn(ai):
                k = ("skip",)        # the same cell holding a function: identity short cut vs reaching the pair is not specified
            if k[0] == "bool":
                cells.append((i, j, "==", k[1]))
                prog.append(A.pr(A.Bin("==", V(ni), V(nj))))
                cells.append((i, j, "!=", not k[1]))
                prog.append(A.pr(A.Bin("!=", V(ni), V(nj))))
            ti, tj = tname(absval(ai)), tname(absval(aj))
            refok = (ti == tj and ti in ("list", "object")) or (ai is Fn and aj is Fn)
            if refok:
                same = idi == idj
                cells.append((i, j, "===", same))
                prog.append(A.pr(A.Bin("===", V(ni), V(nj))))
                cells.append((i, j, "!==", not same))
                prog.append(A.pr(A.Bin("!==", V(ni), V(nj))))
    prog.append(A.pr(S("--after--")))
    for n, _ in pv:
        prog.append(A.pr(V(n)))
    # two separately built equal values: after comparing them their nested containers are still distinct cells
    mk = lambda: A.lst(A.lst(I(0)), A.obj(("k", A.lst(I(1)))))
    prog += [A.pr(S("--heap--")), A.Declare(V("fa"), mk()), A.Declare(V("fb"), mk()),
             A.pr(A.Bin("==", V("fa"), V("fb"))), A.pr(A.Bin("!=", V("fb"), V("fa"))),
             A.pr(A.Bin("===", A.Index(V("fa"), I(0)), A.Index(V("fb"), I(0)))),
             A.pr(A.Bin("===", A.Index(V("fa"), I(1)), A.Index(V("fb"), I(1)))),
             A.pr(A.Bin("===", A.Prop(A.Index(V("fa"), I(1)), "k", False), A.Prop(A.Index(V("fb"), I(1)), "k", False))),
             A.Assign(A.Index(A.Index(V("fa"), I(0)), I(0)), I(9)), A.Assign(A.Index(A.Prop(A.Index(V("fa"), I(1)), "k", False), I(0)), I(8)),
             A.pr(V("fb")), A.pr(A.Bin("==", V("fa"), V("fb")))]
    r = P.render(prog)
    o = core.run_one({"src": r.text, "trace": True})
    out = {"viol": [], "cells": {}, "n": len(cells), "sha": core.sha(r.text)[:12], "inconclusive": None, "same_cell": 0, "shared": 0}
    if o.timeout or o.stack_overflow:
        out["inconclusive"] = "timeout/stack"
        return out
    if o.trace:
        out["same_cell"] = sum(1 for ln in o.trace.split("\n") if ln.startswith("B Eq") and ln.split()[4] == "same")
    if o.crashed or o.code != 0:
        out["viol"].append(("matrix-run", "matrix script did not complete (exit %s): %s" % (o.code, o.err.decode("utf-8", "replace")[-300:]), r.text))
        return out
    text = o.out.decode("utf-8", "replace")
    before, _, rest = text.partition("--matrix--\n")
    mat, _, after = rest.partition("--after--\n")
    after, _, heap = after.partition("--heap--\n")
    want_heap = "true\nfalse\nfalse\nfalse\nfalse\n[\n    [\n        0,\n    ],\n    {\n        \"k\": [\n            1,\n        ],\n    },\n]\nfalse\n"
    if heap != want_heap:
        out["viol"].append(("heap-changed", "comparing two separately built equal values changed identity or contents of their nested containers: " + judge.first_diff(want_heap.encode(), heap.encode()), r.text))
    if before != after:
        out["viol"].append(("mutated", "a value prints differently after being compared: " + judge.first_diff(before.encode(), after.encode()), r.text))
    lines = mat.split("\n")[:-1]
    if len(lines) != len(cells):
        out["viol"].append(("matrix-lines", "expected %d matrix lines, got %d" % (len(cells), len(lines)), r.text))
        return out
    for (i, j, op, exp), ln in zip(cells, lines):
        got = {"true": True, "false": False}.get(ln)
        out["cells"][(i, j, op)] = got
        if got is not exp:
            out["viol"].append(("value/" + op, "%s %s %s printed %s; by the statement it is %s (values %r, %r)" % (
                pool[i][0], op, pool[j][0], ln, exp, show(pool[i][2]), show(pool[j][2])), r.text))
    return out


def show(v):
    return "<func>" if is_fn(v) else v


def pair_work(arg):
    """Pairs whose comparison must (or may) be an error: one process each."""
    tier, seed, pairs = arg
    rng = random.Random(seed)
    pool = make_pool(tier, rng)
    setup_cache = {}
    out = {"viol": [], "n": 0, "kinds": {}, "shas": set(), "inconclusive": 0}
    for i, j, op in pairs:
        ni, _, ai, _ = pool[i]
        nj, _, aj, _ = pool[j]
        k = classify(ai, aj)
        prog = pool_setup(make_pool(tier, random.Random(seed)))
        prog += [A.pr(S("probe")), A.pr(A.Bin(op, V(ni), V(nj))), A.pr(S("after"))]
        r = P.render(prog)
        o = core.run_one({"src": r.text})
        out["n"] += 1
        out["shas"].add(core.sha(r.text)[:12])
        if "sample" not in out:
            out["sample"] = {"pair": "%s %s %s" % (ni, op, nj), "values": [repr(show(ai)), repr(show(aj))], "abstract_verdict": k[0], "script_tail": r.text[-400:]}
        out["kinds"][k[0]] = out["kinds"].get(k[0], 0) + 1
        if o.timeout:
            out["inconclusive"] += 1
            continue
        what = "%s %s %s (values %r, %r)" % (ni, op, nj, show(ai), show(aj))
        if o.died:
            out["viol"].append(("crash", "crash comparing " + what + ": " + o.err.decode("utf-8", "replace")[-200:], r.text))
            continue
        if o.code == 0:
            if k[0] == "error":
                out["viol"].append(("silent-boolean/" + op, "a differently-typed pair is reached but the comparison answered %s: %s" % (
                    o.out.decode().split("\n")[1:2], what), r.text))
            elif o.out not in (b"probe\ntrue\nafter\n", b"probe\nfalse\nafter\n"):
                out["viol"].append(("output", "unexpected output for " + what, r.text))
            elif k[0] == "either" and (o.out == b"probe\ntrue\nafter\n") == (op == "=="):
                out["viol"].append(("value/" + op, "unequal operands compared equal: " + what, r.text))
            continue
        d = judge.Diag(o.err)
        if o.code != 103 or not d.ok or o.out != b"probe\n":
            out["viol"].append(("error-shape", "comparison failure is not a clean diagnostic after the output so far: " + what, r.text))
            continue
        named = any(judge.atoms_present(d.msg, [a, b], False) for a, b in k[1])
        if not named:
            out["viol"].append(("error-types/" + op, "diagnostic %r does not name the two types of a mismatching pair %s: %s" % (d.msg, sorted(k[1]), what), r.text))
        tok = next((t for t in r.items if isinstance(t, P.Tok) and t.text == op and t.line == d.line), None)
        if tok is None or (d.line, d.col) != (tok.line, tok.col):
            out["viol"].append(("error-pos/" + op, "diagnostic is not located at the operator: " + what, r.text))
    return out


def run(rep, tier):
    from .. import scale
    scale.run(rep, PROP, tier)          # size ladders (seedverif/scale.py): the entries that concern this property
    rng = core.rng_for(PROP)
    seed = rng.randrange(1 << 40)
    pool = make_pool(tier, random.Random(seed))
    n = len(pool)
    step = 4
    jobs = [(tier, seed, i, i + step) for i in range(0, n, step)]
    cells = {}
    same_cell = 0
    for res in core.pool().imap_unordered(row_work, jobs, chunksize=1):
        rep.evaluations += 1
        rep.process_runs += 1
        rep.probe_observations += res["n"]
        rep.distinct.add(res["sha"])
        if res["inconclusive"]:
            rep.note_inconclusive(res["inconclusive"])
        for sig, what, src in res["viol"]:
            rep.violation("C10/" + sig, what, {"src": src, "oracle": "abstract structural equality + identity"})
        cells.update(res["cells"])
        same_cell += res["same_cell"]
    # laws over the printed matrices (model-free)
    laws = {"reflexive": 0, "symmetric": 0, "transitive": 0, "negation": 0, "identity_implies_equal": 0, "variants_equal": 0, "identity_reflexive_symmetric": 0}

    def law_violation(name, what):
        rep.violation("C10/law/" + name, what, {"src": P.render(pool_setup(pool)).text, "oracle": "law over the printed matrix"})

    eq = {(i, j): v for (i, j, op), v in cells.items() if op == "=="}
    for (i, j), v in eq.items():
        if (j, i) in eq:
            laws["symmetric"] += 1
            if eq[(j, i)] is not v:
                law_violation("symmetric", "%s == %s is %s but %s == %s is %s" % (pool[i][0], pool[j][0], v, pool[j][0], pool[i][0], eq[(j, i)]))
        ne = cells.get((i, j, "!="))
        if ne is not None:
            laws["negation"] += 1
            if ne is v:
                law_violation("negation", "%s != %s is not the negation of ==" % (pool[i][0], pool[j][0]))
    for i in range(n):
        if not is_fn(pool[i][2]) and (i, i) in eq:
            laws["reflexive"] += 1
            if eq[(i, i)] is not True:
                law_violation("reflexive", "%s == %s is %s" % (pool[i][0], pool[i][0], eq[(i, i)]))
    trues = {}
    for (i, j), v in eq.items():
        if v:
            trues.setdefault(i, set()).add(j)
    for i, js in trues.items():
        for j in js:
            for k in trues.get(j, ()):
                laws["transitive"] += 1
                if eq.get((i, k)) is False:
                    law_violation("transitive", "%s == %s and %s == %s but %s == %s is false" % (pool[i][0], pool[j][0], pool[j][0], pool[k][0], pool[i][0], pool[k][0]))
    for (i, j, op), v in cells.items():
        if op == "===":
            laws["identity_reflexive_symmetric"] += 1
            if i == j and v is not True:
                law_violation("identity-reflexive", "%s === %s is %s" % (pool[i][0], pool[i][0], v))
            if cells.get((j, i, "===")) is not None and cells[(j, i, "===")] is not v:
                law_violation("identity-symmetric", "%s === %s differs by operand order" % (pool[i][0], pool[j][0]))
            if v and not is_fn(pool[i][2]):
                laws["identity_implies_equal"] += 1
                if eq.get((i, j)) is not True:
                    law_violation("identity-implies-equal", "%s === %s but not ==" % (pool[i][0], pool[j][0]))
            nn = cells.get((i, j, "!=="))
            if nn is not None and nn is v:
                law_violation("negation", "%s !== %s is not the negation of ===" % (pool[i][0], pool[j][0]))
    for i in range(n):
        for j in range(n):
            if not is_fn(pool[i][2]) and not is_fn(pool[j][2]) and pool[i][2] == pool[j][2] and tname(pool[i][2]) == tname(pool[j][2]) and (i, j) in eq:
                if type(pool[i][2]) is type(pool[j][2]):
                    laws["variants_equal"] += 1
                    if eq[(i, j)] is not True:
                        law_violation("construction-independence", "%s and %s hold the same contents but are not ==" % (pool[i][0], pool[j][0]))
    for k, v in laws.items():
        rep.tally("law_instances", k, v)
    # deep structures that differ only at the bottom (depth 150 fits the stack: the limit is ~500)
    deep_src = ("a := [0]\nb := [1]\nc := [\"x\"]\nd := [0]\ni := 0\nwhile i < 150 {\n    a = [a]\n    b = {\"k\": b}\n    i += 1\n}\n"
                "i = 0\nb = [1]\nwhile i < 150 {\n    b = [b]\n    c = [c]\n    d = [d]\n    i += 1\n}\n"
                "print(a == d)\nprint(a == b)\nprint(a != b)\nprint(\"next fails\")\nprint(a == c)\n")
    o = core.run_one({"src": deep_src})
    rep.evaluations += 1
    rep.process_runs += 1
    rep.tally("single_pairs", "deep-150")
    if o.stack_overflow or o.timeout:
        rep.note_inconclusive("deep comparison: stack overflow/timeout")
    elif o.crashed or o.code != 103 or o.out != b"true\nfalse\ntrue\nnext fails\n" or not (judge.Diag(o.err).ok and judge.atoms_present(judge.Diag(o.err).msg, ["int", "string"], False)):
        rep.violation("C10/deep", "150-deep lists differing only at the bottom: expected true/false/true then a type error naming int and string; got exit %s stdout %r stderr %r" % (o.code, o.out, o.err[:160]),
                      {"src": deep_src, "oracle": "depth-independent structural equality"})
    # containers that reach themselves, compared with themselves (directly, through an alias, at corresponding positions of fresh containers)
    cyc_src = ("a := [1, 2]\na[1] = a\no := {\"k\": 1}\no.self = o\nhead := {\"label\": \"head\", \"next\": null}\ntail := {\"label\": \"tail\", \"prev\": head}\nhead.next = tail\n"
               "m := {\"xs\": []}\nm.xs = [m]\nl2 := [{}]\nl2[0].up = l2\n"
               "for [_, c] in [a, o, head, tail, m, l2] {\n    alias := c\n    print(c == c)\n    print(c == alias)\n    print(c != alias)\n    print(c === alias)\n    print([c] == [c])\n"
               "    print({\"k\": c} == {\"k\": c})\n    print([0, c] != [0, c])\n    print([c, [c]] == [alias, [alias]])\n}\n"
               "print(head.next.prev == head)\nprint(a[1][1][1] == a)\nprint(m.xs[0] == m)\nprint(o == o.self.self)\n")
    o = core.run_one({"src": cyc_src})
    rep.evaluations += 1
    rep.process_runs += 1
    rep.tally("single_pairs", "cyclic-self")
    want = b"true\ntrue\nfalse\ntrue\ntrue\ntrue\nfalse\ntrue\n" * 6 + b"true\n" * 4
    if o.timeout:
        rep.note_inconclusive("cyclic self comparison: timeout")
    elif o.died or o.code != 0 or o.out != want:
        rep.violation("C10/cyclic-self", "a container that reaches itself, compared with itself (same container on both sides): expected true for ==, false for != everywhere; got exit %s stdout %r stderr %r" % (
            o.code, o.out.decode("utf-8", "replace").split(), o.err[:160]), {"src": cyc_src, "oracle": "x == x for the same container; === implies =="})
    # the answer follows the contents as they are now: compare, mutate one side in place, compare the same pair again
    cmc_src = ('a := [1, [2], {"k": 3}]\nb := [1, [2], {"k": 3}]\nprint(a == b)\nprint(a == b)\na[0] = 9\nprint(a == b)\nprint(a != b)\nprint(b == a)\na[0] = 1\nprint(a == b)\n'
               'a[1][0] = 7\nprint(a == b)\nprint(b == a)\nb[1][0] = 7\nprint(a == b)\na[2].k = 0\nprint(a == b)\nprint(a != b)\nb[2]["k"] = 0\nprint(b == a)\n'
               'p := {"x": [1], "y": "s"}\nq := {"y": "s", "x": [1]}\nprint(p == q)\np.x += [2]\nprint(p == q)\nprint(q == p)\nq.x = [1, 2]\nprint(p == q)\np.z = null\nprint(p == q)\nprint(p != q)\n'
               'fn same(u, v) {\n    return u == v\n}\ns := [0]\nt := [0]\nprint(same(s, t))\ns[0] = 1\nprint(same(s, t))\nprint(same(t, s))\nt[0] = 1\nprint(same(s, t))\n'
               'for [i, _] in [0, 0, 0] {\n    print(s == t)\n    s += [i]\n    print(s == t)\n    t += [i]\n}\n')
    o = core.run_one({"src": cmc_src})
    rep.evaluations += 1
    rep.process_runs += 1
    rep.tally("single_pairs", "compare-mutate-compare")
    T_, F_ = b"true\n", b"false\n"
    want = T_ + T_ + F_ + T_ + F_ + T_ + F_ + F_ + T_ + F_ + T_ + T_ + T_ + F_ + F_ + T_ + F_ + T_ + T_ + F_ + F_ + T_ + (T_ + F_) * 3
    if o.timeout:
        rep.note_inconclusive("compare-mutate-compare: timeout")
    elif o.died or o.code != 0 or o.out != want:
        rep.violation("C10/compare-mutate-compare", "== must follow the current contents of its operands: expected %s, got exit %s stdout %s stderr %r" % (
            want.split(), o.code, o.out.split(), o.err[:160]), {"src": cmc_src, "oracle": "== depends only on shape and contents at the time of the comparison"})
    # operands written literally next to the operator (`x == []`, `{} != ""`): the same table as for variables
    from . import c16
    from .. import harness
    harness.run_cases(rep, "seedverif.checks.c16", c16.literal_operand_descs(["==", "!=", "===", "!=="], tier), {"oracle": "documented-domain table, literal operands"})
    # strings that are fragments of multi-byte characters are compared byte for byte
    frag_src = ('e := "é"\nc := "✓"\nprint(e[0] == e[1])\nprint(e[0] == e[0])\nprint(e[0] != e[1])\nprint([e[0]] == [e[1]])\nprint({"k": c[0:2]} == {"k": c[1:3]})\n'
                'print((c[0:1] + c[1:3]) == c)\nprint(e[0] == e)\nprint((e[0] + e[1]) == e)\nprint(e[1] == c[1])\nprint(c[1:2] == c[2:3])\nprint(c[0:2] != c[0:2])\n'
                'n := 0\nfor [_, b] in c {\n    for [_, d] in c {\n        if b == d {\n            n += 1\n        }\n    }\n}\nprint(n)\n')
    o = core.run_one({"src": frag_src})
    rep.evaluations += 1
    rep.process_runs += 1
    rep.tally("single_pairs", "byte-fragments")
    want = b"false\ntrue\ntrue\nfalse\nfalse\ntrue\nfalse\ntrue\nfalse\nfalse\nfalse\n3\n"
    if o.timeout:
        rep.note_inconclusive("byte fragments: timeout")
    elif o.died or o.code != 0 or o.out != want:
        rep.violation("C10/byte-fragments", "strings cut inside a multi-byte character are equal exactly when their bytes are: expected %r, got exit %s stdout %r stderr %r" % (
            want.split(), o.code, o.out.split(), o.err[:160]), {"src": frag_src, "oracle": "string equality is byte equality"})
    # error / traversal-dependent pairs, one process each
    pairs = []
    for i in range(n):
        for j in range(n):
            k = classify(pool[i][2], pool[j][2])
            if pool[i][3] == pool[j][3] and is_fn(pool[i][2]):
                continue
            if k[0] != "bool":
                pairs.append((i, j, "=="))
                if (i + j) % 3 == 0:
                    pairs.append((i, j, "!="))
    rng.shuffle(pairs)
    if tier == "quick":
        pairs = pairs[:5000]
    chunks = [pairs[k:k + 40] for k in range(0, len(pairs), 40)]
    for res in core.pool().imap_unordered(pair_work, [(tier, seed, c) for c in chunks], chunksize=1):
        rep.evaluations += res["n"]
        rep.process_runs += res["n"]
        rep.distinct.update(res["shas"])
        rep.inconclusive += res["inconclusive"]
        if res.get("sample"):
            rep.actual_sample(res["sample"])
        for k, v in res["kinds"].items():
            rep.tally("single_pairs", k, v)
        for sig, what, src in res["viol"]:
            rep.violation("C10/" + sig, what, {"src": src, "oracle": "comparison must fail cleanly naming both types"})
    rep.cov["pool_size"] = n
    rep.cov["matrix_cells_printed"] = len(cells)
    rep.cov["hook_eq_entries_with_same_cell_operands"] = same_cell
    rep.exhaustive = True
    rep.rule = ("pool of %d values: atoms, all small lists/objects over them, nested values, and construction variants of the same contents (insertion orders, spread, +, range, slices, element assignment, aliases, shared children, functions); "
                "full == / != / === / !== matrices over all ordered pairs: unambiguous pairs printed in-script and checked against an abstract structural equality and the equivalence laws; "
                "pairs that reach a differently-typed pair run alone and must fail cleanly naming both types at the operator; every value is printed before and after. "
                "distinct scripts by SHA-1; non-trivial = compares at least one pair (all)") % n
    rep.sample({"pair": "[[0],[0]] built with a shared child vs literal", "expected": "== true, === false"})
    rep.sample({"pair": "{'a':1,'b':0} built by insertion b-then-a vs a-then-b vs spread vs later-wins literal", "expected": "all =="})
    rep.sample({"pair": "[0, 'a'] == [0, 1]", "expected": "exit 103 naming 'string' and 'int'"})
    rep.assumptions = ["where an operand pair contains both a plain inequality and a differently-typed pair, either `false` or the type error is accepted (traversal order is not specified)"]
    rep.require("matrix cells printed", len(cells), 5000)
    rep.require("transitivity instances", laws["transitive"], 300)
