"""C11 - list/string indexing, slicing and concatenation obey the sequence laws.

Oracle: a Python sequence model written from the statement (domains: read
0<=a<=b<=len, write 0<=a<b<=len and len(ys)==b-a, omitted bound = 0 / len) plus
laws printed in-language.  Strings are byte sequences; results that are not valid
UTF-8 are observed through `==` and index concatenation instead of print."""

import itertools

from .. import batch, core, sast as A

PROP = "C11"
V, I, S = A.Var, A.Int, A.Str
OM = "om"   # omitted bound


def render_list(xs):
    return ["["] + ["    %s," % render_elem(x) for x in xs] + ["]"]


def render_elem(x):
    return str(x) if not isinstance(x, str) else x


def render_nested(v):
    from .c13 import render
    return render(v)


def seqs(tier):
    out = []
    lens = range(0, 6)
    for n in lens:
        for kind in ("list", "str"):
            alpha = [1, 2, 3] if kind == "list" else ["a", "b", "é"]
            combos = list(itertools.product(alpha, repeat=n))
            if tier == "quick" and n >= 4:
                combos = [tuple(alpha[(i * (j + 1)) % 3] for i in range(n)) for j in range(2)]
            elif tier == "thorough" and n == 5:
                combos = combos[::3]
            for c in combos:
                out.append((kind, c))
    return out


def seq_expr(kind, c):
    return A.lst(*[I(x) for x in c]) if kind == "list" else S("".join(c))


def seq_bytes(kind, c):
    return list(c) if kind == "list" else list("".join(c).encode("utf-8"))


def bound_expr(b):
    return None if b == OM else I(b)


def valid_utf8(bs):
    try:
        bytes(bs).decode("utf-8")
        return True
    except UnicodeDecodeError:
        return False


def idx_sum(name, lo, hi):
    """s[lo] + s[lo+1] + ... (string built from single-byte reads); '' for empty"""
    e = S("")
    for i in range(lo, hi):
        e = A.Bin("+", e, A.Index(V(name), I(i)))
    return e


def make_probe(desc, k):
    form = desc[0]
    x = "x%d" % k
    if form == "index":
        _, kind, c, i = desc
        bs = seq_bytes(kind, c)
        n = len(bs)
        decl = A.Declare(V(x), seq_expr(kind, c))
        ok = 0 <= i < n
        what = "%r[%d]" % (list(c) if kind == "list" else "".join(c), i)
        if not ok:
            return {"stmts": [decl, A.pr(A.Index(V(x), I(i)))], "expect": None, "tag": "index_%s_out" % kind, "what": what}
        if kind == "list":
            return {"stmts": [decl, A.pr(A.Index(V(x), I(i)))], "expect": [str(bs[i])], "tag": "index_list_in", "what": what}
        # string: a single byte; observable through the split law and through print when it is ASCII
        st = [decl, A.pr(A.Bin("==", A.Bin("+", A.Bin("+", A.RangeIndex(V(x), None, I(i)), A.Index(V(x), I(i))), A.RangeIndex(V(x), I(i + 1), None)), V(x)))]
        exp = ["true"]
        if bs[i] < 0x80:
            st.append(A.pr(A.Index(V(x), I(i))))
            exp.append(chr(bs[i]))
        st.append(A.pr(A.Bin("==", A.Index(V(x), I(i)), A.Index(V(x), I((i + 1) % n)))))
        exp.append("true" if bs[i] == bs[(i + 1) % n] else "false")
        return {"stmts": st, "expect": exp, "tag": "index_str_in", "what": what}
    if form == "range":
        _, kind, c, a, b = desc
        bs = seq_bytes(kind, c)
        n = len(bs)
        aa = 0 if a == OM else a
        bb = n if b == OM else b
        decl = A.Declare(V(x), seq_expr(kind, c))
        e = A.RangeIndex(V(x), bound_expr(a), bound_expr(b))
        what = "%r[%s:%s]" % (list(c) if kind == "list" else "".join(c), "" if a == OM else a, "" if b == OM else b)
        ok = 0 <= aa <= bb <= n
        if not ok:
            return {"stmts": [decl, A.Declare(V("r%d" % k), e)], "expect": None, "tag": "range_%s_out" % kind, "what": what}
        if kind == "list":
            return {"stmts": [decl, A.pr(e), A.pr(A.Bin("===", e2(x, a, b), V(x)))], "expect": render_list(bs[aa:bb]) + ["false"], "tag": "range_list_in", "what": what}
        st = [decl, A.pr(A.Bin("==", e, idx_sum(x, aa, bb)))]
        exp = ["true"]
        if valid_utf8(bs[aa:bb]):
            st.append(A.pr(A.Call(A.Prop(A.Paren(e2(x, a, b)), "len", True), [])))
            exp.append(str(bb - aa))
            if b"\n" not in bytes(bs[aa:bb]):
                st.append(A.pr(A.Bin("+", A.Bin("+", S("<"), e2(x, a, b)), S(">"))))
                exp.append("<" + bytes(bs[aa:bb]).decode("utf-8") + ">")
        return {"stmts": st, "expect": exp, "tag": "range_str_in", "what": what}
    if form == "badindex":
        _, kind, c, bad, where = desc
        decl = A.Declare(V(x), seq_expr(kind, c))
        be = {"null": A.Null(), "str": S("0"), "bool": A.Bool(True), "list": A.lst(I(0)), "obj": A.obj(), "fn": V("print")}[bad]
        pre_b = []
        if where.endswith("_var"):
            # the offending value reaches the index / bound through a variable
            pre_b = [A.Declare(V("bv%d" % k), be)]
            be = V("bv%d" % k)
        w = where[:-4] if where.endswith("_var") else where
        e = {"index": A.Index(V(x), be), "start": A.RangeIndex(V(x), be, None), "end": A.RangeIndex(V(x), I(0), be), "both": A.RangeIndex(V(x), be, A.clone(be))}[w]
        return {"stmts": [decl] + pre_b + [A.Declare(V("r%d" % k), e)], "expect": None, "tag": "non_int_" + where, "what": "%s with %s as %s" % (kind, bad, where)}
    if form == "set":
        _, c, i = desc
        n = len(c)
        decl = A.Declare(V(x), seq_expr("list", c))
        st = [decl, A.Assign(A.Index(V(x), I(i)), I(9)), A.pr(V(x))]
        what = "%r[%d] = 9" % (list(c), i)
        if 0 <= i < n:
            after = list(c)
            after[i] = 9
            return {"stmts": st, "expect": render_list(after), "tag": "set_in", "what": what}
        return {"stmts": st, "expect": None, "tag": "set_out", "what": what}
    if form == "litidx":
        # the literal itself is the host of the index / slice (no variable in between)
        _, kind, c, i = desc
        bs = seq_bytes(kind, c)
        n = len(bs)
        decl = A.Declare(V(x), seq_expr(kind, c))
        what = "literal %r[%d]" % (list(c) if kind == "list" else "".join(c), i)
        if not (0 <= i < n):
            return {"stmts": [A.pr(A.Index(seq_expr(kind, c), I(i)))], "expect": None, "tag": "literal_host_out", "what": what}
        st = [decl, A.pr(A.Bin("==", A.Index(seq_expr(kind, c), I(i)), A.Index(V(x), I(i)))),
              A.pr(A.Bin("==", A.RangeIndex(seq_expr(kind, c), I(i), None), A.RangeIndex(V(x), I(i), None))),
              A.pr(A.Bin("==", A.RangeIndex(seq_expr(kind, c), None, I(i)), A.RangeIndex(V(x), None, I(i))))]
        exp = ["true", "true", "true"]
        if kind == "list":
            st.append(A.pr(A.Index(seq_expr(kind, c), I(i))))
            exp.append(str(bs[i]))
        return {"stmts": st, "expect": exp, "tag": "literal_host_in", "what": what}
    if form == "rangeidx":
        _, a, b, i, direct = desc
        n = max(0, b - a)
        host = (lambda: A.Range(I(a), I(b))) if direct else (lambda: V(x))
        pre = [] if direct else [A.Declare(V(x), A.Range(I(a), I(b)))]
        what = "(%d..%d)[%d]%s" % (a, b, i, "" if direct else " through a variable")
        if 0 <= i < n:
            return {"stmts": pre + [A.pr(A.Index(host(), I(i))), A.pr(A.RangeIndex(host(), I(i), None))], "expect": [str(a + i)] + render_list(list(range(a + i, b))), "tag": "range_host_in", "what": what}
        return {"stmts": pre + [A.pr(A.Index(host(), I(i)))], "expect": None, "tag": "range_host_out", "what": what}
    if form == "range2":
        # a slice of a slice, written directly: the second pair of bounds refers to the first slice, not to the sequence underneath
        _, kind, c, a, b, c2, d2, direct = desc
        bs = seq_bytes(kind, c)
        n = len(bs)
        decl = A.Declare(V(x), seq_expr(kind, c))
        inner = lambda: A.RangeIndex(V(x), I(a), I(b))
        pre = [decl] if direct else [decl, A.Declare(V("m%d" % k), inner())]
        host = inner if direct else (lambda: V("m%d" % k))
        what = "%r[%d:%d][%d:%d]%s" % (list(c) if kind == "list" else "".join(c), a, b, c2, d2, "" if direct else " (through a variable)")
        ok1 = 0 <= a <= b <= n
        ok2 = ok1 and 0 <= c2 <= d2 <= b - a
        if not ok2:
            return {"stmts": pre + [A.Declare(V("r%d" % k), A.RangeIndex(host(), I(c2), I(d2)))], "expect": None, "tag": "range_of_range_out", "what": what}
        res = bs[a:b][c2:d2]
        if kind == "list":
            return {"stmts": pre + [A.pr(A.RangeIndex(host(), I(c2), I(d2))), A.pr(A.Index(A.RangeIndex(host(), I(c2), None), I(0))) if c2 < b - a else A.pr(S("-"))],
                    "expect": render_list(res) + ([str(bs[a:b][c2])] if c2 < b - a else ["-"]), "tag": "range_of_range_in", "what": what}
        return {"stmts": pre + [A.pr(A.Bin("==", A.RangeIndex(host(), I(c2), I(d2)), idx_sum(x, a + c2, a + d2)))], "expect": ["true"], "tag": "range_of_range_in", "what": what}
    if form == "setop":
        _, c, i, op = desc
        n = len(c)
        decl = A.Declare(V(x), seq_expr("list", c))
        st = [decl, A.OpAssign(op, A.Index(V(x), I(i)), I(2)), A.pr(V(x))]
        what = "%r[%d] %s= 2" % (list(c), i, op)
        if 0 <= i < n:
            after = list(c)
            after[i] = {"+": c[i] + 2, "-": c[i] - 2, "*": c[i] * 2}[op]
            return {"stmts": st, "expect": render_list(after), "tag": "opassign_in", "what": what}
        return {"stmts": st, "expect": None, "tag": "opassign_out", "what": what}
    if form == "opcat":
        _, variant = desc
        y = "y%d" % k
        if variant == "self":
            st = [A.Declare(V(x), A.lst(A.lst(I(1)), A.lst(I(2)))), A.OpAssign("+", A.Index(V(x), I(0)), V(x)), A.pr(V(x)),
                  A.pr(A.Call(A.Prop(A.Index(V(x), I(0)), "type", True), []))]
            exp = render_nested([[1, [1], [2]], [2]]) + ["list"]
        elif variant == "other":
            st = [A.Declare(V(x), A.lst(A.lst(I(1)), I(5))), A.Declare(V(y), A.lst(I(7), I(8))), A.OpAssign("+", A.Index(V(x), I(0)), V(y)), A.pr(V(x)), A.pr(V(y))]
            exp = render_nested([[1, 7, 8], 5]) + render_nested([7, 8])
        elif variant == "element_of_self":
            st = [A.Declare(V(x), A.lst(A.lst(I(1)), A.lst(I(2), I(3)))), A.OpAssign("+", A.Index(V(x), I(0)), A.Index(V(x), I(1))), A.pr(V(x))]
            exp = render_nested([[1, 2, 3], [2, 3]])
        else:
            st = [A.Declare(V(x), A.lst(S("ab"), S("c"))), A.OpAssign("+", A.Index(V(x), I(0)), A.Index(V(x), I(1))), A.pr(V(x))]
            exp = render_nested(["abc", "c"])
        return {"stmts": st, "expect": exp, "tag": "element_concat", "what": "element += (%s)" % variant}
    if form == "once":
        _, variant = desc
        c, nx = "c%d" % k, "nx%d" % k
        pre = [A.Declare(V(c), I(0)), A.FuncStmt(nx, [], False, [A.OpAssign("+", V(c), I(1)), A.Return(A.Bin("-", V(c), I(1)))]),
               A.Declare(V(x), A.lst(I(10), I(20), I(30)))]
        if variant == "assign":
            st = pre + [A.Assign(A.Index(V(x), A.call(nx)), I(9)), A.pr(V(x)), A.pr(V(c))]
            exp = render_nested([9, 20, 30]) + ["1"]
        elif variant == "opassign":
            st = pre + [A.ExprStmt(A.call(nx)), A.OpAssign("+", A.Index(V(x), A.call(nx)), I(5)), A.pr(V(x)), A.pr(V(c))]
            exp = render_nested([10, 25, 30]) + ["2"]
        elif variant == "read":
            st = pre + [A.pr(A.Index(V(x), A.call(nx))), A.pr(A.RangeIndex(V(x), A.call(nx), None)), A.pr(V(c))]
            exp = ["10"] + render_nested([20, 30]) + ["2"]
        else:
            st = pre + [A.Assign(A.RangeIndex(V(x), A.call(nx), A.Bin("+", A.call(nx), I(1))), A.lst(I(7), I(8))), A.pr(V(x)), A.pr(V(c))]
            exp = render_nested([7, 8, 30]) + ["2"]
        return {"stmts": st, "expect": exp, "tag": "index_evaluated_once", "what": "index expression with a side effect (%s)" % variant}
    if form == "setstr":
        _, c = desc
        return {"stmts": [A.Declare(V(x), S("".join(c))), A.Assign(A.Index(V(x), I(0)), S("z"))], "expect": None, "tag": "set_string", "what": "string element assignment"}
    if form == "rset":
        _, c, a, b, ykind, m = desc
        n = len(c)
        aa = 0 if a == OM else a
        bb = n if b == OM else b
        if ykind == "list":
            ys = [7 + j for j in range(m)]
            yexpr = A.lst(*[I(v) for v in ys])
        elif ykind == "str":
            ys = list("pqrstu"[:m])
            yexpr = S("".join(ys))
        else:
            # a string with multi-byte characters: m counts BYTES (the elements written are one-byte strings)
            text = ("é✓p😀q"[: 1 if m <= 2 else (2 if m <= 5 else 3)])
            raw = text.encode("utf-8")
            if len(raw) != m:
                text, raw = "é" * (m // 2) + "p" * (m % 2), ("é" * (m // 2) + "p" * (m % 2)).encode("utf-8")
            ys = None
            yexpr = S(text)
        decl = A.Declare(V(x), seq_expr("list", c))
        yn = "y%d" % k
        if ykind == "mb":
            ok = 0 <= aa < bb <= n and m == bb - aa
            what = "%r[%s:%s] = %r (%d bytes)" % (list(c), "" if a == OM else a, "" if b == OM else b, text, m)
            st = [decl, A.Declare(V(yn), yexpr), A.Assign(A.RangeIndex(V(x), bound_expr(a), bound_expr(b)), V(yn))]
            if not ok:
                return {"stmts": st, "expect": None, "tag": "rset_out_mb", "what": what}
            # the written elements are the bytes of the string: compare through == with single-byte reads, lengths unchanged
            exp = []
            for j in range(m):
                st.append(A.pr(A.Bin("==", A.Index(V(x), I(aa + j)), A.Index(V(yn), I(j)))))
                exp.append("true")
            for j in range(n):
                if not (aa <= j < bb):
                    st.append(A.pr(A.Index(V(x), I(j))))
                    exp.append(str(c[j]))
            st.append(A.pr(A.Bin("==", A.RangeIndex(V(x), I(aa), I(bb)), A.RangeIndex(V(x), I(aa), I(bb)))))
            exp.append("true")
            st.append(A.For(V("_"), V(x), []))
            return {"stmts": st, "expect": exp, "tag": "rset_in_mb", "what": what}
        st = [decl, A.Declare(V(yn), yexpr), A.Assign(A.RangeIndex(V(x), bound_expr(a), bound_expr(b)), V(yn)), A.pr(V(x)),
              A.pr(A.Call(A.Prop(V(yn), "type", True), []))]
        what = "%r[%s:%s] = %r" % (list(c), "" if a == OM else a, "" if b == OM else b, ys if ykind == "list" else "".join(ys))
        ok = 0 <= aa < bb <= n and m == bb - aa
        if ok:
            after = list(c)
            after[aa:bb] = ys
            return {"stmts": st, "expect": render_list(after) + ["list" if ykind == "list" else "string"], "tag": "rset_in_" + ykind, "what": what}
        return {"stmts": st, "expect": None, "tag": "rset_out_" + ykind, "what": what}
    if form == "concat":
        _, kind, c, d = desc
        decl = [A.Declare(V(x), seq_expr(kind, c)), A.Declare(V("t%d" % k), seq_expr(kind, d))]
        both = seq_bytes(kind, c) + seq_bytes(kind, d)
        cat = A.Bin("+", V(x), V("t%d" % k))
        st = decl + [A.pr(cat)]
        exp = render_list(both) if kind == "list" else [("".join(c) + "".join(d))]
        n1 = len(seq_bytes(kind, c))
        for kk in range(0, len(both) + 1):
            st.append(A.pr(A.Bin("==", A.Bin("+", A.RangeIndex(A.Paren(A.Bin("+", V(x), V("t%d" % k))), None, I(kk)), A.RangeIndex(A.Paren(A.Bin("+", V(x), V("t%d" % k))), I(kk), None)), A.Bin("+", V(x), V("t%d" % k)))))
            exp.append("true")
        for i in range(len(seq_bytes(kind, d))):
            st.append(A.pr(A.Bin("==", A.Index(A.Paren(A.Bin("+", V(x), V("t%d" % k))), I(n1 + i)), A.Index(V("t%d" % k), I(i)))))
            exp.append("true")
        st.append(A.pr(V(x)))
        exp += render_list(seq_bytes(kind, c)) if kind == "list" else ["".join(c)]
        return {"stmts": st, "expect": exp, "tag": "concat_" + kind, "what": "%r + %r" % (c, d)}
    raise ValueError(desc)


def e2(x, a, b):
    return A.RangeIndex(V(x), bound_expr(a), bound_expr(b))


def run(rep, tier):
    from .. import scale
    scale.run(rep, PROP, tier)          # size ladders (seedverif/scale.py): the entries that concern this property
    rng = core.rng_for(PROP)
    descs = []
    for kind, c in seqs(tier):
        n = len(seq_bytes(kind, c))
        for i in range(-2, n + 3):
            descs.append(("index", kind, c, i))
        bounds = list(range(-2, n + 3)) + [OM]
        for a in bounds:
            for b in bounds:
                descs.append(("range", kind, c, a, b))
    for kind, c in [("list", (1, 2, 3)), ("str", ("a", "é"))]:
        for bad in ("null", "str", "bool", "list", "obj", "fn"):
            for where in ("index", "start", "end", "index_var", "start_var", "end_var", "both_var"):
                descs.append(("badindex", kind, c, bad, where))
    lists = [c for kind, c in seqs(tier) if kind == "list"]
    for c in lists:
        n = len(c)
        for i in range(-2, n + 3):
            descs.append(("set", c, i))
            if n <= 3 or i in (-1, n - 1, n, n + 1):
                descs.append(("setop", c, i, "+-*"[(i + n) % 3]))
    descs.append(("setstr", ("a", "b")))
    for kind, c in (("list", (1, 2, 3, 4)), ("str", ("a", "é", "b"))):
        n = len(seq_bytes(kind, c))
        for a in range(0, n + 1):
            for b in range(a, n + 1):
                for c2 in range(0, n + 1):
                    for d2 in range(c2, n + 2):
                        if tier == "thorough" or (a + b + c2 + d2) % 2 == 0 or d2 > b - a:
                            descs.append(("range2", kind, c, a, b, c2, d2, (a + d2) % 3 != 0))
    for kind, c in seqs(tier):
        if len(c) <= 3:
            for i in range(-1, len(seq_bytes(kind, c)) + 2):
                descs.append(("litidx", kind, c, i))
    for a, b in ((0, 0), (0, 1), (0, 3), (2, 5), (-2, 1), (3, 3), (5, 2), (7, 8)):
        for i in range(-1, max(0, b - a) + 2):
            for direct in (True, False):
                descs.append(("rangeidx", a, b, i, direct))
    for variant in ("self", "other", "element_of_self", "strings"):
        descs.append(("opcat", variant))
    for variant in ("assign", "opassign", "read", "range_assign"):
        descs.append(("once", variant))
    wl = [c for c in lists if len(c) <= 3] + [c for c in lists if len(c) > 3][:: (4 if tier == "quick" else 1)]
    for c in wl:
        n = len(c)
        bounds = list(range(-1, n + 2)) + [OM]
        for a in bounds:
            for b in bounds:
                for ykind in ("list", "str", "mb"):
                    for m in range(0, n + 2):
                        if tier == "quick" and n >= 3 and (a, b, m) != (a, b, (0 if b == OM or a == OM else max(0, b - a))) and rng.random() < 0.6:
                            continue
                        descs.append(("rset", c, a, b, ykind, m))
    small = [s for s in seqs(tier) if len(s[1]) <= 2]
    for (k1, c), (k2, d) in itertools.product(small, small):
        if k1 == k2:
            descs.append(("concat", k1, c, d))
    rng.shuffle(descs)
    batch.run(rep, "seedverif.checks.c11", descs, "C11", oracle="Python sequence model + in-language laws")
    rep.exhaustive = True
    rep.rule = ("every list over {1,2,3} and every string over {a,b,é} up to length 5 (representatives for length >= 3 in quick) x every index in [-2,len+2] x every bound pair from [-2,len+2] or omitted (reads); "
                "every element write; range writes x rhs list/string of every length 0..len+1; non-integer indices of every kind; concatenation of all small pairs with the split and offset laws printed in-language. "
                "one probe = one observation; distinct probes counted by description; non-trivial = all (each targets one cell of the box)")
    rep.sample({"probe": "'aéb'[1:3]", "expected": "== s[1]+s[2] (the two bytes of é), len 2"})
    rep.sample({"probe": "[1,2,3][2:] = [7]", "expected": "[1,2,7]"})
    rep.sample({"probe": "[1,2,3][:] = [7]", "expected": "reported error (needs 3 items)"})
    rep.sample({"probe": "[1,2,3][3]", "expected": "reported error"})
    rep.require("probes observed", rep.probe_observations, 15000)
