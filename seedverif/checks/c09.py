"""C09 - newline equals `;`; whitespace, comments and line layout never change meaning."""

from .. import core, layoutlib as L, printer as P

PROP = "C09"


def fold(rep, res, prefix):
    if res.get("sample"):
        rep.actual_sample(res["sample"], limit=2)
    rep.evaluations += res["inputs"]
    rep.process_runs += res["runs"]
    rep.distinct.update(res["shas"])
    rep.inconclusive += res["inconclusive"]
    for k, v in res["tally"].items():
        rep.tally(prefix, k, v)
    for sig, what, case in res["viol"]:
        rep.violation("C09/" + sig, what, case)


def run(rep, tier):
    from .. import scale
    scale.run(rep, PROP, tier)          # size ladders (seedverif/scale.py): the entries that concern this property
    rng = core.rng_for(PROP)
    nshards = 160 if tier == "quick" else 2000
    jobs = [(rng.randrange(1 << 40), 10, 3 if tier == "quick" else 6, "C09") for _ in range(nshards)]
    for res in core.pool().imap_unordered(L.work, jobs, chunksize=1):
        fold(rep, res, "layout_pairs")
    njobs = 96 if tier == "quick" else 1200
    for res in core.pool().imap_unordered(L.newline_work, [(rng.randrange(1 << 40), 25) for _ in range(njobs)], chunksize=1):
        fold(rep, res, "line_breaks")
    # the end of the file: white space, comments and empty statements after the last terminator change nothing; and what
    # follows a last line that has no terminator (nothing, blanks, a comment) makes no difference either
    import re
    from .. import printer as P, progen as G
    strip = lambda b: re.sub(rb"\d+:\d+", b"L:C", b)
    for i in range(40 if tier == "quick" else 600):
        prog, _ = G.generate(rng.randrange(1 << 40), size=rng.choice([3, 6, 12]))
        text = P.render(prog).text
        assert text.endswith("\n")
        done = [text, text + "\n\n", text + "   ", text + "# c", text + "\t# é✓\n", text + ";", text + " ;; \n", text + "\r\n", text + "#"]
        cut = text[:-1]
        open_ = [cut, cut + " ", cut + "  # c", cut + "\t", cut + "#", cut + " \t ", cut + "# é"]
        for name, group, key in (("after_last_terminator", done, lambda o: (o.code, o.out, o.err)), ("unterminated_last_line", open_, lambda o: (o.code, o.out, strip(o.err)))):
            obs = core.run_many([{"src": t} for t in group])
            rep.evaluations += len(group)
            rep.process_runs += len(group)
            rep.tally("end_of_file", name, len(group))
            if any(o.timeout for o in obs):
                rep.note_inconclusive("end-of-file variants: timeout")
                continue
            for t, o in zip(group[1:], obs[1:]):
                if o.died or key(o) != key(obs[0]):
                    rep.violation("C09/end-of-file/" + name, "what follows the last %s changes the behaviour: exit %s / %s, stderr %r / %r" % (
                        "terminator" if name.startswith("after") else "(unterminated) line", obs[0].code, o.code, obs[0].err[:120], o.err[:120]),
                        {"src": t, "oracle": "layout invariance at the end of the file", "reference": group[0], "observed": o.brief()})
                    break
    # a terminator in the middle of an expression: `;` and a line break give the same diagnostic (same text, position of the terminator)
    from .. import layoutlib as LL
    for i in range(60 if tier == "quick" else 900):
        prog, _ = G.generate(rng.randrange(1 << 40), size=rng.choice([3, 6, 12]))
        r = P.render(prog)
        toks = [t for t in LL.toks_of(r)]
        cand = [j for j in range(1, len(toks)) if toks[j - 1].kind not in P.CONT_KINDS and toks[j].line == toks[j - 1].line and toks[j - 1].text not in ("{", "}") and toks[j].text not in ("}",)]
        if not cand:
            continue
        j = rng.choice(cand)
        off = toks[j].offset
        variants = [r.text[:off] + sep + r.text[off:] for sep in (";", "\n", " ;", "\r\n", ";;", "\n\n")]
        obs = core.run_many([{"src": t} for t in variants])
        rep.evaluations += len(variants)
        rep.process_runs += len(variants)
        rep.tally("end_of_file", "terminator_inside_a_statement", len(variants))
        if any(o.timeout for o in obs):
            continue
        key = lambda o: (o.code, o.out, strip(o.err))
        for t, o in zip(variants[1:], obs[1:]):
            if o.died or key(o) != key(obs[0]):
                rep.violation("C09/terminator-spelling", "a `;` and a line break at the same place are answered differently: exit %s / %s, stderr %r / %r" % (obs[0].code, o.code, obs[0].err[:160], o.err[:160]),
                              {"src": t, "oracle": "newline = `;`", "reference": variants[0], "observed": o.brief()})
                break
    lb = rep.cov.get("line_breaks", {})
    cont_kinds = {k[5:] for k in lb if k.startswith("cont:")}
    term_kinds = {k[5:] for k in lb if k.startswith("term:")}
    sysb = {k for k in rep.cov.get("layout_pairs", {}) if k.startswith("break_after:")}
    rep.rule = ("generated programs (succeeding and failing) re-printed under random layout policies (terminator choice, continuation breaks, spaces/tabs/CR/FF, "
                "comments with arbitrary text, blank lines, `_` in ints, \\xHH for ASCII string characters) and one systematic policy breaking after every occurrence of one continuation token; "
                "token stream (hook) and CLI behaviour must be identical and diagnostics must move with their tokens; plus line breaks inserted after arbitrary tokens: "
                "continuation tokens -> no effect, all others -> exactly `;`. distinct by SHA-1 of the layout variant; non-trivial = differs from the canonical layout")
    rep.extra["continuation_kinds_broken_after"] = sorted(cont_kinds)
    rep.extra["terminating_kinds_broken_after"] = sorted(term_kinds)
    rep.sample({"canonical": "x := 1 + 2\nprint(x)\n", "variant": "x:=\n  1+ # c\n 2;print(\n x);\n", "expected": "same tokens, same output"})
    rep.sample({"negative": "print(x\n)", "expected": "behaves exactly like print(x ; ) - rejected"})
    rep.sample({"failing": "relayout of a program failing at `nope`", "expected": "same message, position moved with the token"})
    rep.require("continuation token kinds with a line break after them", len(cont_kinds), 25)
    rep.require("non-continuation token kinds with a line break after them", len(term_kinds), 15)
    rep.require("systematic break-after policies used", len(sysb), 20)
    rep.require("failing layout pairs compared", rep.cov.get("layout_pairs", {}).get("failing_pairs", 0), 100)
