"""C09 - newline equals `;`; whitespace, comments and line layout never change meaning."""

from .. import core, layoutlib as L, printer as P

PROP = "C09"


def fold(rep, res, prefix):
    if res.get("sample"):
        rep.actual_sample(res["sample"], limit=2)
    rep.evaluations += res["inputs"]
    rep.process_runs += res["runs"]
    rep.distinct.update(res["shas"])
    rep.inconclusive += res["inconclusive"]
    for k, v in res["tally"].items():
        rep.tally(prefix, k, v)
    for sig, what, case in res["viol"]:
        rep.violation("C09/" + sig, what, case)


def run(rep, tier):
    from .. import scale
    scale.run(rep, PROP, tier)          # size ladders (seedverif/scale.py): the entries that concern this property
    rng = core.rng_for(PROP)
    nshards = 160 if tier == "quick" else 2000
    jobs = [(rng.randrange(1 << 40), 10, 3 if tier == "quick" else 6, "C09") for _ in range(nshards)]
    for res in core.pool().imap_unordered(L.work, jobs, chunksize=1):
        fold(rep, res, "layout_pairs")
    njobs = 96 if tier == "quick" else 1200
    for res in core.pool().imap_unordered(L.newline_work, [(rng.randrange(1 << 40), 25) for _ in range(njobs)], chunksize=1):
        fold(rep, res, "line_breaks")
    lb = rep.cov.get("line_breaks", {})
    cont_kinds = {k[5:] for k in lb if k.startswith("cont:")}
    term_kinds = {k[5:] for k in lb if k.startswith("term:")}
    sysb = {k for k in rep.cov.get("layout_pairs", {}) if k.startswith("break_after:")}
    rep.rule = ("generated programs (succeeding and failing) re-printed under random layout policies (terminator choice, continuation breaks, spaces/tabs/CR/FF, "
                "comments with arbitrary text, blank lines, `_` in ints, \\xHH for ASCII string characters) and one systematic policy breaking after every occurrence of one continuation token; "
                "token stream (hook) and CLI behaviour must be identical and diagnostics must move with their tokens; plus line breaks inserted after arbitrary tokens: "
                "continuation tokens -> no effect, all others -> exactly `;`. distinct by SHA-1 of the layout variant; non-trivial = differs from the canonical layout")
    rep.extra["continuation_kinds_broken_after"] = sorted(cont_kinds)
    rep.extra["terminating_kinds_broken_after"] = sorted(term_kinds)
    rep.sample({"canonical": "x := 1 + 2\nprint(x)\n", "variant": "x:=\n  1+ # c\n 2;print(\n x);\n", "expected": "same tokens, same output"})
    rep.sample({"negative": "print(x\n)", "expected": "behaves exactly like print(x ; ) - rejected"})
    rep.sample({"failing": "relayout of a program failing at `nope`", "expected": "same message, position moved with the token"})
    rep.require("continuation token kinds with a line break after them", len(cont_kinds), 25)
    rep.require("non-continuation token kinds with a line break after them", len(term_kinds), 15)
    rep.require("systematic break-after policies used", len(sysb), 20)
    rep.require("failing layout pairs compared", rep.cov.get("layout_pairs", {}).get("failing_pairs", 0), 100)
