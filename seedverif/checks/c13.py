"""C13 - destructuring, spread and collect are inverse, lossless rearrangements.

Oracle: a small pattern matcher over abstract values written from the statement,
plus round-trip laws printed in-language."""

import itertools
import random

from .. import batch, core, sast as A

PROP = "C13"
V, I, S = A.Var, A.Int, A.Str


class Fail(Exception):
    pass


# patterns: ("n", name) | ("_",) | ("L", [pats], rest|None) | ("O", [(key, pat, shorthand_bool)], rest|None)

def match(p, v, out, seen):
    t = p[0]
    if t == "_":
        return
    if t == "n":
        if p[1] in seen:
            raise Fail("dup")
        seen.add(p[1])
        out.append((p[1], v))
        return
    if t == "L":
        if not isinstance(v, list):
            raise Fail("not a list")
        pats, rest = p[1], p[2]
        if rest is None:
            if len(v) != len(pats):
                raise Fail("length")
        elif len(v) < len(pats):
            raise Fail("too short")
        for q, x in zip(pats, v):
            match(q, x, out, seen)
        if rest is not None:
            match(rest, v[len(pats):], out, seen)
        return
    if t == "O":
        if not isinstance(v, dict):
            raise Fail("not an object")
        used = set()
        for key, q, _ in p[1]:
            if key not in v:
                raise Fail("missing key")
            match(q, v[key], out, seen)
            used.add(key)
        if p[2] is not None:
            match(p[2], {k: x for k, x in v.items() if k not in used}, out, seen)
        return
    raise ValueError(p)


def pat_expr(p):
    t = p[0]
    if t == "_":
        return V("_")
    if t == "n":
        return V(p[1])
    if t == "L":
        items = [(pat_expr(q), False) for q in p[1]]
        if p[2] is not None:
            items.append((pat_expr(p[2]), False))
        return A.ListE(items, p[2] is not None)
    props = []
    for key, q, short in p[1]:
        if short:
            props.append(A.Single(V(key), False, False))
        else:
            props.append(A.Pair(S(key), pat_expr(q)))
    if p[2] is not None:
        props.append(A.Single(pat_expr(p[2]), False, True))
    return A.ObjectE(props)


def names_of(p, out=None):
    out = [] if out is None else out
    t = p[0]
    if t == "n":
        out.append(p[1])
    elif t == "L":
        for q in p[1]:
            names_of(q, out)
        if p[2] is not None:
            names_of(p[2], out)
    elif t == "O":
        for _, q, _ in p[1]:
            names_of(q, out)
        if p[2] is not None:
            names_of(p[2], out)
    return out


def render(v, ind=""):
    if v is None:
        return ["<null>"]
    if isinstance(v, bool):
        return ["true" if v else "false"]
    if isinstance(v, str):
        return v.split("\n")
    if isinstance(v, int):
        return [str(v)]
    if isinstance(v, list):
        out = ["["]
        for x in v:
            r = render(x)
            out.append("    " + r[0] + ("," if len(r) == 1 else ""))
            for k, ln in enumerate(r[1:]):
                out.append("    " + ln + ("," if k == len(r) - 2 else ""))
        return out + ["]"]
    out = ["{"]
    for key in sorted(v, key=lambda s: s.encode("utf-8")):
        r = render(v[key])
        out.append('    "%s": ' % key + r[0] + ("," if len(r) == 1 else ""))
        for k, ln in enumerate(r[1:]):
            out.append("    " + ln + ("," if k == len(r) - 2 else ""))
    return out + ["}"]


# ------------------------------------------------------------------ enumeration

def gen_patterns(rng, tier):
    pats = []
    cnt = [0]

    def nm():
        cnt[0] += 1
        return "b%d" % cnt[0]

    def leaf(kind):
        return ("_",) if kind == "_" else ("n", nm())

    leaves = ["n", "_"]
    # flat list patterns
    for w in range(0, 5 if tier == "thorough" else 4):
        for ks in itertools.product(leaves, repeat=w):
            for rest in (None, "n", "_"):
                pats.append(("L", [leaf(k) for k in ks], None if rest is None else leaf(rest)))
    # flat object patterns over keys a, k, "x y"
    keys = ["a", "k", "x y"]
    for n in range(0, 4):
        for ks in itertools.permutations(keys, n):
            for rest in (None, "n"):
                for style in (0, 1):
                    props = []
                    for i, key in enumerate(ks):
                        if style == 0 and key in ("a", "k"):
                            props.append((key, ("n", key), True))
                        else:
                            props.append((key, leaf("n" if (i + style) % 3 else "_"), False))
                    pats.append(("O", props, None if rest is None else leaf(rest)))
    # nested, depth 2
    pats.append(("L", [("n", "_v"), ("n", "_")] if False else [("n", "_v"), ("_",)], ("n", "_rest")))
    pats.append(("O", [("a", ("n", "_a"), False)], ("n", "_others")))
    inner = [("L", [("n", "i1")], None), ("L", [("n", "i1"), ("_",)], ("n", "ir")), ("O", [("a", ("n", "ia"), False)], ("n", "io")), ("L", [], ("n", "ir")),
             ("O", [], None), ("L", [("L", [("n", "i2")], None)], None)]
    for q in inner:
        pats.append(("L", [("n", "o1"), q], None))
        pats.append(("L", [q, ("n", "o1")], ("n", "orest")))
        pats.append(("O", [("k", q, False)], ("n", "orest")))
        pats.append(("O", [("a", ("n", "oa"), False), ("k", q, False)], None))
        pats.append(("L", [q, q2(q)], None))
    return pats


def q2(q):
    """a structurally identical pattern with different names"""
    t = q[0]
    if t == "n":
        return ("n", q[1] + "x")
    if t == "_":
        return q
    if t == "L":
        return ("L", [q2(x) for x in q[1]], None if q[2] is None else q2(q[2]))
    return ("O", [(k, q2(x), s) for k, x, s in q[1]], None if q[2] is None else q2(q[2]))


def fit(p, rng, extra=0):
    """A value the pattern accepts (extra surplus elements/keys at the top level)."""
    t = p[0]
    if t in ("n", "_"):
        return rng.choice([rng.randrange(100), "s%d" % rng.randrange(9), [rng.randrange(9)], {"z": 1}, None, True])
    if t == "L":
        v = [fit(q, rng) for q in p[1]]
        if p[2] is not None or extra:
            v += [rng.randrange(100) for _ in range(extra)]
        return v
    d = {key: fit(q, rng) for key, q, _ in p[1]}
    for i in range(extra):
        d["extra%d" % i] = i
    return d


def sources(p, rng):
    out = []
    t = p[0]
    n = len(p[1])
    for extra in (0, 1, 2):
        out.append(fit(p, rng, extra))
    if t == "L":
        base = fit(p, rng)
        if n:
            out.append(base[:n - 1])
        out.append([])
        out += [5, "str", {"a": 1}, None]
        # wrong kind at a nested position
        for i, q in enumerate(p[1]):
            if q[0] in ("L", "O"):
                b = fit(p, rng)
                b[i] = 7
                out.append(b)
    else:
        base = fit(p, rng)
        if n:
            b = dict(base)
            del b[p[1][0][0]]
            out.append(b)
        out.append({})
        out += [5, "str", [1], None]
        for key, q, _ in p[1]:
            if q[0] in ("L", "O"):
                b = dict(fit(p, rng))
                b[key] = "wrong"
                out.append(b)
    return out


def suffix(p, k):
    """rename all bound names with a unique suffix"""
    t = p[0]
    if t == "n":
        return ("n", "%s_%d" % (p[1], k))
    if t == "_":
        return p
    if t == "L":
        return ("L", [suffix(q, k) for q in p[1]], None if p[2] is None else suffix(p[2], k))
    return ("O", [(key, suffix(q, k) if not s else q, s) for key, q, s in p[1]], None if p[2] is None else suffix(p[2], k))


PATS = None


def pats(tier):
    global PATS
    if PATS is None:
        import os
        PATS = gen_patterns(random.Random(1), os.environ.get("SEEDVERIF_C13_TIER", "quick"))
    return PATS


def make_probe(desc, k):
    if desc[0] == "pat":
        _, pi, si, pos, seed = desc
        p = suffix(pats("x")[pi], k) if pos != "shortdecl" else pats("x")[pi]
        srcs = sources(pats("x")[pi], random.Random(seed))
        if si >= len(srcs):
            return None
        v = srcs[si]
        has_short = any(s for _, _, s in p[1]) if p[0] == "O" else False
        short_assign = False
        if has_short and pos != "fn":
            # shorthand names are the keys themselves (a, k): only usable once per script -> use a function scope
            short_assign = pos == "assign"
            pos = "fn"
        out, seen = [], set()
        try:
            match(p, v, out, seen)
            ok = True
        except Fail:
            ok = False
        names = names_of(p)
        prints = [A.pr(V(n)) for n in names]
        lines = []
        if ok:
            vals = dict(out)
            for n in names:
                lines += render(vals[n])
        pe = pat_expr(p)
        src = A.lit(v)
        if pos == "fortop":
            # the pattern itself is the loop target: it is matched against each [index, item] pair
            if p[0] != "L":
                return None
            ok, lines = True, []
            for idx in (0, 1):
                out, seen = [], set()
                try:
                    match(p, [idx, v], out, seen)
                except Fail:
                    ok = False
                    break
                vals = dict(out)
                for n in names:
                    lines += render(vals[n])
            stmts = [A.For(pe, A.lst(src, A.lit(v)), prints)]
        elif pos == "decl":
            stmts = [A.Declare(pe, src)] + prints
        elif pos == "assign":
            stmts = [A.Declare(V(n), A.Null()) for n in names] + [A.Assign(pe, src)] + prints
        elif pos == "for":
            stmts = [A.For(A.lst(V("_"), pe), A.lst(src), prints)]
        elif pos == "fn_empty":
            stmts = [A.FuncStmt("pf%d" % k, [pe], False, []), A.ExprStmt(A.call("pf%d" % k, src)), A.pr(S("returned"))]
            lines = ["returned"]
        elif pos == "for_empty":
            stmts = [A.For(A.lst(V("_"), pe), A.lst(src), []), A.pr(S("looped"))]
            lines = ["looped"]
        elif short_assign:
            # `{a, k} = src` inside a function whose scope already declares the names
            stmts = [A.FuncStmt("pf%d" % k, [], False, [A.Declare(V(n), A.Str("unset")) for n in names] + [A.Assign(pe, src)] + prints),
                     A.ExprStmt(A.call("pf%d" % k))]
            pos = "assign-in-fn"
        else:
            stmts = [A.FuncStmt("pf%d" % k, [pe], False, prints), A.ExprStmt(A.call("pf%d" % k, src))]
        what = "%s in %s position against %r" % (show(p), pos, v)
        # round-trip laws
        if ok and p[0] == "L" and p[2] is not None and p[2][0] == "n" and all(q[0] == "n" for q in p[1]) and pos == "decl":
            stmts.append(A.pr(A.Bin("==", A.Bin("+", A.lst(*[V(q[1]) for q in p[1]]), V(p[2][1])), A.lit(v))))
            lines.append("true")
        if ok and p[0] == "O" and p[2] is not None and p[2][0] == "n" and all(q[0] == "n" for _, q, _ in p[1]) and pos in ("decl", "fn", "assign-in-fn"):
            law = A.pr(A.Bin("==", A.ObjectE([A.Pair(S(key), V(q[1])) for key, q, _ in p[1]] + [A.Single(V(p[2][1]), True, False)]), A.lit(v)))
            if pos in ("fn", "assign-in-fn"):
                stmts[0].body.append(law)
            else:
                stmts.append(law)
            lines.append("true")
        return {"stmts": stmts, "expect": lines if ok else None, "tag": "%s_%s_%s" % (p[0], pos, "match" if ok else "mismatch"), "what": what}
    if desc[0] == "spread":
        _, xs, ys = desc
        a, b = "sa%d" % k, "sb%d" % k
        stmts = [A.Declare(V(a), A.lit(list(xs))), A.Declare(V(b), A.lit(list(ys))),
                 A.pr(A.Bin("==", A.ListE([(V(a), True), (V(b), True)], False), A.Bin("+", V(a), V(b)))),
                 A.pr(A.ListE([(V(a), True), (I(0), False), (V(b), True)], False)),
                 A.pr(A.Bin("===", A.ListE([(V(a), True)], False), V(a)))]
        return {"stmts": stmts, "expect": ["true"] + render(list(xs) + [0] + list(ys)) + ["false"], "tag": "list_spread", "what": "[%r.., 0, %r..]" % (xs, ys)}
    if desc[0] == "restfresh":
        _, nfixed, nlist = desc
        f, l, x = "rf%d" % k, "rl%d" % k, "rx%d" % k
        params = [V("p%d_%d" % (i, k)) for i in range(nfixed)] + [V("r%d" % k)]
        vals = [20 + i for i in range(nlist)]
        stmts = [A.FuncStmt(f, params, True, [A.Return(V("r%d" % k))]), A.Declare(V(l), A.lit(vals)),
                 A.Declare(V(x), A.Call(V(f), [(V(l), True)])), A.pr(V(x)), A.pr(A.Bin("===", V(x), V(l)))]
        if nlist < nfixed:
            return {"stmts": stmts, "expect": None, "tag": "rest_parameter_fresh", "what": "f(l..) with %d fixed parameters and %d values" % (nfixed, nlist)}
        rest = vals[nfixed:]
        lines = render(rest) + ["false"]
        if rest:
            stmts += [A.Assign(A.Index(V(x), I(0)), I(-1)), A.pr(V(l))]
            lines += render(vals)
        return {"stmts": stmts, "expect": lines, "tag": "rest_parameter_fresh", "what": "f(l..) with %d fixed parameters and %d values: the rest is a fresh list" % (nfixed, nlist)}
    if desc[0] == "argsplit":
        _, nparams, collect, args, mask = desc
        f = "af%d" % k
        pnames = ["q%d_%d" % (i, k) for i in range(nparams)]
        # one parameter in some probes is the placeholder `_` (it still takes its argument); half of the functions are literals
        und = (k // 2) % (nparams + 2)
        if und < nparams and not (collect and und == nparams - 1):
            pnames[und] = "_"
        body = [A.pr(V(n)) for n in pnames if n != "_"]
        if k % 2:
            stmts = [A.Declare(V(f), A.FuncE([V(n) for n in pnames], collect, body + [A.Return(I(0))]))]
        else:
            stmts = [A.FuncStmt(f, [V(n) for n in pnames], collect, body + [A.Return(I(0))])]
        # arguments: consecutive runs marked 1 in mask are passed as one spread list
        items = []
        i = 0
        arglist = list(args)
        holders = []
        while i < len(arglist):
            if mask[i]:
                j = i
                while j < len(arglist) and mask[j] == mask[i]:
                    j += 1
                h = "h%d_%d" % (i, k)
                holders.append(A.Declare(V(h), A.lit(arglist[i:j])))
                items.append((V(h), True))
                i = j
            else:
                items.append((A.lit(arglist[i]), False))
                i += 1
        stmts += holders + [A.ExprStmt(A.Call(V(f), items))]
        n = len(arglist)
        ok = (n >= nparams - 1) if collect else (n == nparams)
        what = "f(%s%s) called with %r split %r" % (", ".join("p" for _ in range(nparams)), " ..rest" if collect else "", arglist, mask)
        if not ok:
            return {"stmts": stmts, "expect": None, "tag": "arg_count_mismatch", "what": what}
        lines = []
        for i in range(nparams):
            if pnames[i] == "_":
                continue
            if collect and i == nparams - 1:
                lines += render(arglist[nparams - 1:])
            else:
                lines += render(arglist[i])
        # fresh rest list: identity differs from any holder, equality with the surplus
        return {"stmts": stmts, "expect": lines, "tag": "arg_split", "what": what}
    if desc[0] == "dupname":
        _, shape, pos = desc
        x, y = "dx%d" % k, "dy%d" % k
        shapes_ = {
            "flat_list": (A.lst(V(x), V(y), V(x)), A.lst(I(1), I(2), I(3))),
            "nested_first": (A.lst(A.lst(V(x), V(y)), V(x)), A.lst(A.lst(I(1), I(2)), I(3))),
            "nested_last": (A.lst(V(x), A.lst(V(y), V(x))), A.lst(I(1), A.lst(I(2), I(3)))),
            "two_nested": (A.lst(A.lst(V(x)), A.lst(V(x))), A.lst(A.lst(I(1)), A.lst(I(2)))),
            "object_values": (A.ObjectE([A.Pair(S("a"), V(x)), A.Pair(S("b"), V(x))]), A.obj(("a", I(1)), ("b", I(2)))),
            "object_nested_list_first": (A.ObjectE([A.Pair(S("a"), A.lst(V(x), V(y))), A.Pair(S("b"), V(x))]), A.obj(("a", A.lst(I(1), I(2))), ("b", I(3)))),
            "list_then_object": (A.lst(V(x), A.ObjectE([A.Pair(S("a"), V(x))])), A.lst(I(1), A.obj(("a", I(2))))),
            "object_then_rest": (A.ObjectE([A.Pair(S("a"), V(x)), A.Single(V(x), False, True)]), A.obj(("a", I(1)), ("b", I(2)))),
            "list_rest_same": (A.ListE([(A.lst(V(x)), False), (V(x), False)], True), A.lst(A.lst(I(1)), I(2), I(3))),
            "distinct_ok": (A.lst(A.lst(V(x)), V(y)), A.lst(A.lst(I(1)), I(2))),
        }
        pat, src = shapes_[shape]
        if pos == "anon_params":
            # the same names as plain parameters of an anonymous function
            names2 = {"flat_list": [x, y, x], "two_nested": [x, x], "distinct_ok": [x, y]}.get(shape)
            if names2 is None:
                return None
            stmts = [A.Declare(V("af%d" % k), A.FuncE([V(n) for n in names2], False, [A.pr(S("body"))])),
                     A.ExprStmt(A.Call(V("af%d" % k), [(I(i), False) for i in range(len(names2))]))]
            if shape == "distinct_ok":
                return {"stmts": stmts + [A.pr(S("ok"))], "expect": ["body", "ok"], "tag": "dup_name_control", "what": "distinct anonymous parameters"}
            return {"stmts": stmts, "expect": None, "tag": "dup_name", "what": "anonymous function with a repeated parameter name (%s)" % shape}
        if pos == "decl":
            stmts = [A.Declare(pat, src)]
        elif pos == "assign":
            stmts = [A.Declare(V(x), A.Null()), A.Declare(V(y), A.Null()), A.Assign(pat, src)]
        elif pos == "for":
            stmts = [A.For(A.lst(V("_"), pat), A.lst(src), [A.pr(S("body"))])]
        elif pos == "fn_def_only":
            stmts = [A.FuncStmt("df%d" % k, [pat, V("zz%d" % k)], False, [A.pr(S("body"))]), A.pr(S("defined"))]
            if shape == "distinct_ok":
                return {"stmts": stmts, "expect": ["defined"], "tag": "dup_name_control", "what": "distinct names, definition only"}
        else:
            stmts = [A.FuncStmt("df%d" % k, [pat], False, [A.pr(S("body"))]), A.ExprStmt(A.call("df%d" % k, src))]
        if shape == "distinct_ok":
            exp = [] if pos in ("decl", "assign") else ["body"]
            return {"stmts": stmts + [A.pr(S("ok"))], "expect": exp + ["ok"], "tag": "dup_name_control", "what": "distinct names in %s" % pos}
        return {"stmts": stmts, "expect": None, "tag": "dup_name", "what": "name bound twice (%s) in %s position" % (shape, pos)}
    if desc[0] == "order":
        name = desc[1]
        xs, take, f = "ox%d" % k, "take%d" % k, "of%d" % k
        pre = [A.Declare(V(xs), A.lst(I(1), I(2))), A.FuncStmt(take, [V("l")], False, [A.Assign(A.Index(V("l"), I(0)), I(99)), A.Return(I(0))]),
               A.FuncStmt(f, [V("r")], True, [A.Return(V("r"))])]
        if name == "list_spread_then_mutate":
            # a spread item is expanded when its turn comes: what a later item does to the list does not reach the copy
            st = pre + [A.pr(A.ListE([(V(xs), True), (A.call(take, V(xs)), False)], False)), A.pr(V(xs))]
            exp = render([1, 2, 0]) + render([99, 2])
        elif name == "arg_spread_then_mutate":
            st = pre + [A.pr(A.Call(V(f), [(V(xs), True), (A.call(take, V(xs)), False), (V(xs), True)])), A.pr(V(xs))]
            exp = render([1, 2, 0, 99, 2]) + render([99, 2])
        elif name == "object_spread_then_mutate":
            ob = "oo%d" % k
            st = [A.Declare(V(ob), A.obj(("a", I(1)))), A.FuncStmt(take, [], False, [A.Assign(A.Prop(V(ob), "a", False), I(99)), A.Return(I(0))]),
                  A.pr(A.ObjectE([A.Single(V(ob), True, False), A.Pair(S("z"), A.call(take))])), A.pr(V(ob))]
            exp = render({"a": 1, "z": 0}) + render({"a": 99})
        elif name.startswith("pattern_key_reads_earlier_binding"):
            # the items of an object pattern are bound one after the other: a computed name may use what an earlier item bound
            kn, vn = "pk%d" % k, "pv%d" % k
            pat = lambda: A.ObjectE([A.Pair(S("kind"), V(kn)), A.Pair(V(kn), V(vn)), A.Single(V("pr%d" % k), False, True)])
            src = lambda: A.obj(("kind", S("size")), ("size", I(3)), ("other", I(4)))
            shown = [A.pr(V(kn)), A.pr(V(vn)), A.pr(V("pr%d" % k))]
            if name.endswith("_decl"):
                st = [A.Declare(pat(), src())] + shown
            elif name.endswith("_assign"):
                st = [A.Declare(V(kn), S("unset")), A.Declare(V(vn), A.Null()), A.Declare(V("pr%d" % k), A.Null()), A.Assign(pat(), src())] + shown
            elif name.endswith("_param"):
                st = [A.FuncStmt(f, [pat()], False, shown), A.ExprStmt(A.call(f, src()))]
            else:
                st = [A.For(A.lst(V("_"), pat()), A.lst(src()), shown)]
            exp = ["size", "3"] + render({"other": 4})
        else:
            raise ValueError(name)
        return {"stmts": st, "expect": exp, "tag": "evaluation_order", "what": name}
    if desc[0] == "misuse":
        name = desc[1]
        o = "mo%d" % k
        pre = [A.Declare(V(o), A.obj(("a", I(1)), ("b", I(2)))), A.Declare(V("ml%d" % k), A.lst(I(1), I(2), I(3)))]
        L, O = V("ml%d" % k), V(o)
        x, y = "mx%d" % k, "my%d" % k
        table = {
            "spread_in_list_pattern": [A.Declare(A.ListE([(V(x), True), (V(y), False)], False), L)],
            "spread_in_object_pattern": [A.Declare(A.ObjectE([A.Single(V("a"), True, False)]), O)],
            "collect_not_last_object": [A.Declare(A.ObjectE([A.Single(V(x), False, True), A.Pair(S("a"), V(y))]), O)],
            "collect_outside_pattern_list": [A.pr(A.ListE([(I(1), False), (L, False)], True))],
            "collect_outside_pattern_object": [A.pr(A.ObjectE([A.Single(O, False, True)]))],
            "duplicate_name_list": [A.Declare(A.lst(V(x), V(y), V(x)), L)],
            "duplicate_name_nested": [A.Declare(A.lst(V(x), A.lst(V(x))), A.lst(I(1), A.lst(I(2))))],
            "duplicate_name_object": [A.Declare(A.ObjectE([A.Pair(S("a"), V(x)), A.Pair(S("b"), V(x))]), O)],
            "duplicate_rest_name": [A.Declare(A.ListE([(V(x), False), (V(x), False)], True), L)],
            "spread_non_list_arg": [A.FuncStmt("mf%d" % k, [V("r")], True, []), A.ExprStmt(A.Call(V("mf%d" % k), [(O, True)]))],
            "object_spread_of_list": [A.pr(A.ObjectE([A.Single(L, True, False)]))],
            "list_spread_of_object": [A.pr(A.ListE([(O, True)], False))],
            "list_spread_of_string": [A.pr(A.ListE([(S("ab"), True)], False))],
            "shorthand_not_a_name": [A.Declare(A.ObjectE([A.Single(I(1), False, False)]), O)],
            "collect_and_spread_same_item": [A.Declare(A.ListE([(V(x), False), (V(y), True)], True), L)],
            "collect_and_spread_only_item": [A.Declare(V(y), A.lst()), A.Assign(A.ListE([(V(y), True)], True), L)],
            "collect_and_spread_in_for": [A.For(A.ListE([(V(x), False), (V(y), True)], True), A.lst(L), [])],
            "collect_and_spread_in_params": [A.FuncStmt("mg%d" % k, [A.ListE([(V(x), False), (V(y), True)], True)], False, []), A.ExprStmt(A.call("mg%d" % k, L))],
        }
        return {"stmts": pre + table[name], "expect": None, "tag": "misuse", "what": name}
    raise ValueError(desc)


MISUSE = ["spread_in_list_pattern", "spread_in_object_pattern", "collect_not_last_object", "collect_outside_pattern_list", "collect_outside_pattern_object",
          "duplicate_name_list", "duplicate_name_nested", "duplicate_name_object", "duplicate_rest_name", "spread_non_list_arg", "object_spread_of_list",
          "list_spread_of_object", "list_spread_of_string", "shorthand_not_a_name",
          "collect_and_spread_same_item", "collect_and_spread_only_item", "collect_and_spread_in_for", "collect_and_spread_in_params"]


def show(p):
    t = p[0]
    if t == "n":
        return p[1].split("_")[0]
    if t == "_":
        return "_"
    if t == "L":
        return "[" + ", ".join([show(q) for q in p[1]] + (["..%s" % show(p[2])] if p[2] else [])) + "]"
    return "{" + ", ".join([('%s' % key if s else '"%s": %s' % (key, show(q))) for key, q, s in p[1]] + (["..%s" % show(p[2])] if p[2] else [])) + "}"


def run(rep, tier):
    import os
    os.environ["SEEDVERIF_C13_TIER"] = tier      # workers enumerate the same pattern list (must be set before the worker pool is forked)
    from .. import scale
    scale.run(rep, PROP, tier)          # size ladders (seedverif/scale.py): the entries that concern this property
    rng = core.rng_for(PROP)
    P = pats(tier)
    descs = []
    positions = ["decl", "assign", "for", "fortop", "fn", "fn_empty", "for_empty"]
    for rep_i in range(1 if tier == "quick" else 6):
      for pi in range(len(P)):
        seed = rng.randrange(1 << 30)
        nsrc = 12
        for si in range(nsrc):
            for pos in positions:
                descs.append(("pat", pi, si, pos, seed))
    vals = [(), (1,), (1, 2), (1, 2, 3)]
    for xs in vals:
        for ys in vals:
            descs.append(("spread", xs, ys))
    for nparams in range(0, 5):
        for collect in (False, True):
            if collect and nparams == 0:
                continue
            for nargs in range(0, 6):
                args = tuple(10 + i for i in range(nargs))
                masks = list(itertools.product((0, 1, 2), repeat=nargs))
                if tier == "quick" and len(masks) > 12:
                    masks = rng.sample(masks, 12)
                for m in masks:
                    descs.append(("argsplit", nparams, collect, args, m))
    for m in MISUSE:
        descs.append(("misuse", m))
    for name in ("list_spread_then_mutate", "arg_spread_then_mutate", "object_spread_then_mutate", "pattern_key_reads_earlier_binding_decl",
                 "pattern_key_reads_earlier_binding_assign", "pattern_key_reads_earlier_binding_param", "pattern_key_reads_earlier_binding_for"):
        descs.append(("order", name))
    for nfixed in (0, 1, 2):
        for nlist in (0, 1, 2, 3):
            descs.append(("restfresh", nfixed, nlist))
    for shape in ["flat_list", "nested_first", "nested_last", "two_nested", "object_values", "object_nested_list_first", "list_then_object",
                  "object_then_rest", "list_rest_same", "distinct_ok"]:
        for pos in ("decl", "assign", "for", "fn", "fn_def_only", "anon_params"):
            descs.append(("dupname", shape, pos))
    rng.shuffle(descs)
    batch.run(rep, "seedverif.checks.c13", descs, "C13", oracle="abstract pattern matcher + round-trip laws")
    # collect / spread markers in places where the grammar has no room for them: the file must be rejected as a whole
    raw = ["fn f(a, b) { }\nxs := [2]\nprint(\"ran\")\nf(1, ..xs)\n", "xs := [2]\nprint(\"ran\")\nys := [1, ..xs, 3]\n", "xs := [2]\nprint(\"ran\")\nprint(..xs)\n",
           "print(\"ran\")\nfn g(..a, b) { }\n", "xs := [1]\nprint(\"ran\")\n[..a, b] := xs\n", "print(\"ran\")\nx := ..[1]\n", "print(\"ran\")\nx := [1]..\n"]
    for t, o in zip(raw, core.run_many([{"src": t} for t in raw])):
        rep.evaluations += 1
        rep.process_runs += 1
        rep.tally("probes", "misplaced_marker_rejected_by_the_grammar")
        if o.crashed or o.code != 103 or o.out:
            rep.violation("C13/misplaced-marker", "a collect/spread marker in a place the grammar does not allow must reject the file: exit %s stdout %r stderr %r" % (o.code, o.out[:40], o.err[:120]),
                          {"src": t, "observed": o.brief()})
    rep.exhaustive = True
    rep.cov["patterns_enumerated"] = len(P)
    rep.rule = ("%d patterns (all flat list patterns of width 0-3 over {name, _} with no / named / discarded rest; object patterns over every ordered key subset of {a, k, 'x y'} with shorthand or renames and optional rest; "
                "nested list/object patterns to depth 2-3) x sources that fit exactly, with 1-2 surplus items, one short, empty, wrong kind at a nested position, and non-container kinds, in declaration / assignment / for-target / parameter position; "
                "list spread pairs; every parameter list of 0-4 names with/without ..rest x 0-5 arguments x splits into plain and spread segments; misuse cases. distinct probes by description; non-trivial = all") % len(P)
    rep.sample({"pattern": "[a, _, ..rest] := [1, 2, 3, 4]", "expected": "a=1 rest=[3,4]; [a] + ... law"})
    rep.sample({"pattern": '{a, "x y": n, ..rest} against {"a":1,"x y":2,"extra0":0}', "expected": 'rest == {"extra0": 0}; {"a": a, "x y": n, rest..} == source'})
    rep.sample({"call": "f(p, p, ..rest) with [10,11,12,13] split as plain, spread[11,12], plain", "expected": "rest == [12, 13]"})
    rep.require("probes observed", rep.probe_observations, 4000)
