"""C20 - names must be declared once per scope before use; `_` never binds."""

import itertools
import random

from .. import core, harness, sast as A

PROP = "C20"
V, I, S = A.Var, A.Int, A.Str

NAMES = ["x", "y"]
TOKENS = []
for n in NAMES:
    TOKENS += ["D " + n, "DL " + n, "DO " + n, "DF " + n, "A " + n, "O " + n, "R " + n, "AL " + n, "AO " + n, "AOR " + n, "DOR " + n, "ALR " + n]
TOKENS += ["D _", "DL _", "DO _", "R _", "A _", "O _", "DF _", "AOR _", "D _u", "R _u", "DS x", "DS y", "RS x", "RS y"]
TOKENS += ["{", "P x{", "P _{", "FOR x{", "FOR _{", "FORP y{", "}"]
# declarations whose value is null / false / 0 / "" / [] / {}: the name is declared all the same (not part of the exhaustive product)
EXTRA = ["DV%d %s" % (i, n) for i in range(6) for n in NAMES]


def show(e):
    # containers (collected rests) print as they are; functions as "func"
    return A.pr(A.call("show", e))


def build(seq):
    counter = [10]

    def val():
        counter[0] += 1
        return I(counter[0])

    stack = [("top", [], None)]
    for t in seq:
        cur = stack[-1][1]
        parts = t.split(" ")
        op = parts[0]
        n = parts[1].rstrip("{") if len(parts) > 1 else None
        if op in ("D", "DL", "DO", "DF", "DOR", "DS") and stack[-1][0] in ("param", "for", "forp") and stack[-1][2] == n:
            return None      # redeclaring a parameter / loop target at the top of its own body: unspecified (DESIGN section 5)
        if op[:2] == "DV":
            if stack[-1][0] in ("param", "for", "forp") and stack[-1][2] == n:
                return None
            val()
            cur.append(A.Declare(V(n), [A.Null(), A.Bool(False), I(0), S(""), A.lst(), A.obj()][int(op[2])]))
        elif op == "D":
            cur.append(A.Declare(V(n), val()))
        elif op == "DS":
            cur.append(A.Declare(V(n), A.Bin("+", V(n), val())))
        elif op == "DL":
            cur.append(A.Declare(A.lst(V(n), V("_")), A.lst(val(), I(0))))
        elif op == "DO":
            cur.append(A.Declare(A.ObjectE([A.Pair(S("k"), V(n)), A.Single(V("_"), False, True)]), A.obj(("k", val()), ("z", I(0)))))
        elif op == "DF":
            cur.append(A.FuncStmt(n, [], False, [A.Return(val())]))
        elif op == "A":
            cur.append(A.Assign(V(n), val()))
        elif op == "AL":
            cur.append(A.Assign(A.lst(V("_"), V(n)), A.lst(I(0), val())))
        elif op == "AO":
            cur.append(A.Assign(A.ObjectE([A.Pair(S("k"), V(n))]), A.obj(("k", val()))))
        elif op == "AOR":
            cur.append(A.Assign(A.ObjectE([A.Pair(S("k"), V("_")), A.Single(V(n), False, True)]), A.obj(("k", I(0)), ("z", val()))))
        elif op == "DOR":
            cur.append(A.Declare(A.ObjectE([A.Pair(S("k"), V("_")), A.Single(V(n), False, True)]), A.obj(("k", I(0)), ("z", val()))))
        elif op == "ALR":
            cur.append(A.Assign(A.ListE([(V("_"), False), (V(n), False)], True), A.lst(I(0), val())))
        elif op == "O":
            cur.append(A.OpAssign("+", V(n), I(1000)))
        elif op == "R":
            cur.append(show(V(n)))
        elif op == "RS":
            # the name is read through the object-literal shorthand `{x}`
            cur.append(show(A.Prop(A.ObjectE([A.Single(V(n), False, False)]), n, False)))
        elif t == "{":
            stack.append(("block", [], None))
        elif op == "P":
            stack.append(("param", [], n))
        elif op == "FOR":
            stack.append(("for", [], n))
        elif op == "FORP":
            stack.append(("forp", [], n))
        elif t == "}":
            if len(stack) == 1:
                return None
            close(stack, counter)
        else:
            raise ValueError(t)
    while len(stack) > 1:
        close(stack, counter)
    return [A.FuncStmt("show", [V("v")], False, [A.If([(A.Bin("==", A.Call(A.Prop(V("v"), "type", True), []), S("func")), [A.Return(S("func"))])], None), A.Return(V("v"))])] + stack[0][1]


def close(stack, counter):
    kind, body, n = stack.pop()
    cur = stack[-1][1]
    counter[0] += 1
    if kind == "block":
        cur.append(A.Block(body if body else [A.pr(S("empty"))]))
    elif kind == "param":
        f = "pf%d" % counter[0]
        cur.append(A.FuncStmt(f, [V(n)], False, body))
        cur.append(A.ExprStmt(A.call(f, I(counter[0]))))
    elif kind == "for":
        cur.append(A.For(V(n), A.lst(I(counter[0])), body))
    else:
        cur.append(A.For(A.lst(V("_"), V(n)), A.lst(I(counter[0]), I(counter[0] + 1)), body))


def nonbindable(kind):
    return {
        "null": A.Null, "bool": lambda: A.Bool(True), "int": lambda: I(3), "neg_int": lambda: I(-3), "string": lambda: S("s"),
        "interp": lambda: A.IStr(["a", S("b")]), "call": lambda: A.call("g"), "binop": lambda: A.Bin("+", V("n"), I(1)),
        "range": lambda: A.Range(I(0), I(2)), "anon_fn": lambda: A.FuncE([], False, []), "paren_literal": lambda: A.Paren(I(1)),
        "type_call": lambda: A.Call(A.Prop(V("n"), "type", True), []), "cmp": lambda: A.Bin("==", V("n"), V("n")),
        "type_prop": lambda: A.Prop(V("n"), "type", True), "type_prop_on_object": lambda: A.Prop(V("ob"), "a", True),
        "type_prop_on_string": lambda: A.Prop(A.Str("s"), "len", True),
    }[kind]()


NONBIND = ["null", "bool", "int", "neg_int", "string", "interp", "call", "binop", "range", "anon_fn", "paren_literal", "type_call", "cmp",
           "type_prop", "type_prop_on_object", "type_prop_on_string"]
POSITIONS = ["declare", "assign", "opassign", "list_pattern", "object_pattern", "param", "for_target", "nested_assign", "collect_target"]


def nonbind_prog(kind, pos):
    K = nonbindable(kind)
    pre = [A.Declare(V("n"), I(1)), A.Declare(V("ob"), A.obj(("a", I(1)))), A.FuncStmt("g", [], False, [A.Return(I(1))]), A.pr(S("before"))]
    if pos == "declare":
        st = [A.Declare(K, I(1))]
    elif pos == "assign":
        st = [A.Assign(K, I(1))]
    elif pos == "opassign":
        st = [A.OpAssign("+", K, I(1))]
    elif pos == "list_pattern":
        st = [A.Declare(A.lst(V("ok"), K), A.lst(I(1), I(2)))]
    elif pos == "object_pattern":
        st = [A.Declare(A.ObjectE([A.Pair(S("k"), K)]), A.obj(("k", I(1))))]
    elif pos == "param":
        st = [A.FuncStmt("bad", [K], False, []), A.ExprStmt(A.call("bad", I(1)))]
    elif pos == "for_target":
        st = [A.For(K, A.lst(I(1)), [A.pr(S("body"))])]
    elif pos == "nested_assign":
        st = [A.Declare(V("ok"), I(0)), A.Assign(A.lst(V("ok"), A.lst(K)), A.lst(I(1), A.lst(I(2))))]
    else:
        st = [A.Declare(A.ListE([(V("ok"), False), (K, False)], True), A.lst(I(1), I(2), I(3)))]
    return pre + st + [A.pr(S("after"))]


def valid_targets():
    P = A.pr
    return {
        "element_declare": [A.Declare(V("xs"), A.lst(I(1), I(2))), A.Declare(A.Index(V("xs"), I(0)), I(9)), P(V("xs"))],
        "property_declare": [A.Declare(V("o"), A.obj()), A.Declare(A.Prop(V("o"), "k", False), I(9)), P(V("o"))],
        "range_declare": [A.Declare(V("xs"), A.lst(I(1), I(2))), A.Declare(A.RangeIndex(V("xs"), I(0), I(1)), A.lst(I(9))), P(V("xs"))],
        "targets_in_pattern": [A.Declare(V("xs"), A.lst(I(1), I(2))), A.Declare(V("o"), A.obj()), A.Assign(A.lst(A.Index(V("xs"), I(1)), A.Prop(V("o"), "k", False)), A.lst(I(7), I(8))), P(V("xs")), P(V("o"))],
        "underscore_repeated": [A.Declare(A.lst(V("_"), V("_"), V("a")), A.lst(I(1), I(2), I(3))), A.Declare(V("_"), I(5)), A.Declare(V("_"), I(6)), P(V("a")),
                                A.FuncStmt("f", [V("_"), V("_")], False, [A.Return(I(1))]), P(A.call("f", I(1), I(2)))],
        "underscore_object_rest": [A.Declare(A.ObjectE([A.Pair(S("a"), V("_")), A.Single(V("_"), False, True)]), A.obj(("a", I(1)), ("b", I(2)))), P(S("ok"))],
        "inner_scope_redeclare": [A.Declare(V("x"), I(1)), A.Block([A.Declare(V("x"), I(2)), P(V("x")), A.Block([A.Declare(V("x"), I(3)), P(V("x"))])]), P(V("x")),
                                  A.If([(A.Bool(True), [A.Declare(V("x"), I(4)), P(V("x"))])], None), A.For(V("x"), A.lst(I(5)), [P(V("x"))]), P(V("x"))],
        "redeclare_after_inner_scope_ended": [A.Block([A.Declare(V("t"), I(1))]), A.Declare(V("t"), I(2)), P(V("t"))],
        "fn_param_shadows": [A.Declare(V("x"), I(1)), A.FuncStmt("f", [V("x")], False, [A.Assign(V("x"), I(9)), A.Return(V("x"))]), P(A.call("f", I(5))), P(V("x"))],
        "loop_iteration_fresh": [A.For(V("_"), A.lst(I(1), I(2)), [A.Declare(V("t"), I(1)), P(V("t"))]), A.Declare(V("w"), I(0)),
                                 A.While(A.Bin("<", V("w"), I(2)), [A.OpAssign("+", V("w"), I(1)), A.Declare(V("t"), V("w")), P(V("t"))])],
    }


VALID = valid_targets()


def build_case(desc):
    if desc[0] == "seq":
        prog = build(desc[1])
        if prog is None:
            return {"skip": "brackets"}
        return {"prog": prog, "check_pos": True, "check_atoms": True, "check_diag": True, "tags": ["seq:%d" % len(desc[1])]}
    if desc[0] == "nonbind":
        return {"prog": nonbind_prog(desc[1], desc[2]), "expect_error": True, "check_diag": True, "tags": ["nonbindable:" + desc[2]], "post": "post_nonbind"}
    if desc[0] == "valid":
        return {"prog": valid_targets()[desc[1]], "expect_error": False, "tags": ["valid:" + desc[1]]}
    raise ValueError(desc)


def post_nonbind(case, r, res, obs):
    if obs.out != b"before\n":
        return [("C20/nonbindable-output", "binding a non-bindable expression must fail before anything else happens: stdout %r" % obs.out)]
    return []


def run(rep, tier):
    from .. import scale
    scale.run(rep, PROP, tier)          # size ladders (seedverif/scale.py): the entries that concern this property
    rng = core.rng_for(PROP)
    descs = []
    nmax = 3 if tier == "quick" else 4
    for n in range(1, nmax + 1):
        for seq in itertools.product(TOKENS, repeat=n):
            if seq[0] != "}":
                descs.append(("seq", seq))
    for _ in range(8000 if tier == "quick" else 250000):
        n = rng.choice([4, 5, 6, 7])
        descs.append(("seq", tuple(rng.choice(TOKENS) for _ in range(n))))
    for e in EXTRA:
        for t in TOKENS:
            descs += [("seq", (e, t)), ("seq", (e, t, "R x")), ("seq", ("{", e, t)), ("seq", (e, "{", t)), ("seq", (t, e, "R x"))]
    for _ in range(2000 if tier == "quick" else 50000):
        n = rng.choice([3, 4, 5, 6])
        descs.append(("seq", tuple(rng.choice(TOKENS + EXTRA * 2) for _ in range(n))))
    for kind in NONBIND:
        for pos in POSITIONS:
            descs.append(("nonbind", kind, pos))
    for name in VALID:
        descs.append(("valid", name))
    rng.shuffle(descs)
    harness.run_cases(rep, "seedverif.checks.c20", descs, {"oracle": "model (declaration rules) + token-map positions"})
    rep.exhaustive = True
    rep.rule = ("all sequences up to length %d over {declare via :=, list pattern, object pattern, fn; assign; assign through a pattern; op-assign; read} x {x, y, _} and scope openers {block, function with parameter x/_, for with target x/_/[_, y]} "
                "with closers; random longer sequences; every non-bindable expression kind in every binding position; valid non-name targets and `_` repetition cases. "
                "Checked: which event fails, that the diagnostic sits on the name and names it, that a redeclaration cites the earlier declaration's line:col. distinct by SHA-1; non-trivial = all") % nmax
    rep.sample({"sequence": "D x ; { ; D x ; R x ; } ; R x", "expected": "inner 12, outer 11"})
    rep.sample({"sequence": "DL x ; DF x", "expected": "error at the second x citing [line:col] of the first"})
    rep.sample({"sequence": "D _ ; R _", "expected": "'_' is not defined at the read"})
    rep.sample({"nonbindable": "call in for_target", "source": "for g() in [1] { }", "expected": "reported error, nothing after `before` printed"})
    errs = rep.cov.get("outcome", {})
    rep.require("redeclaration errors observed", errs.get("error:AlreadyInScope", 0), 300)
    rep.require("undefined-name errors observed", errs.get("error:Undefined", 0), 300)
