"""C06 - integer arithmetic is exact over 64 bits or reports an error."""

import itertools
import random

from .. import core, harness, sast as A

PROP = "C06"
MAX = 2 ** 63 - 1
MIN = -(2 ** 63)

GRID = sorted(set(
    [0, 1, -1, 2, -2, MAX, MAX - 1, MIN, MIN + 1, MIN + 2, 2 ** 62, -(2 ** 62)] +
    [s * m for s in (1, -1) for m in (2 ** 31 - 1, 2 ** 31, 2 ** 31 + 1, 2 ** 32 - 1, 2 ** 32, 2 ** 32 + 1,
                                      3037000499, 3037000500)]))
ARITH = ["+", "-", "*", "/", "%"]
CMP = ["<", "<=", ">", ">=", "==", "!="]
FORMS = ["plain", "var", "elem", "prop", "key", "shadow"]
BATCH = 250


def exact(op, a, b):
    """Mathematical result, or None if it does not fit / divisor is zero."""
    if op == "+":
        r = a + b
    elif op == "-":
        r = a - b
    elif op == "*":
        r = a * b
    elif op in ("/", "%"):
        if b == 0:
            return None
        q = abs(a) // abs(b)
        if (a < 0) != (b < 0):
            q = -q
        r = q if op == "/" else a - q * b
    else:
        return {"<": a < b, "<=": a <= b, ">": a > b, ">=": a >= b, "==": a == b, "!=": a != b}[op]
    if r > MAX or r < MIN:
        return None
    return r


def stmts_for(form, op, a, b, idx):
    """Statements that evaluate `a op b` in the given form and print the result."""
    V = A.Var
    la, lb = A.lit(a), A.lit(b)
    if form == "plain":
        return [A.pr(A.Bin(op, la, lb))]
    if form == "var":
        x = "x%d" % idx
        return [A.Declare(V(x), la), A.OpAssign(op, V(x), lb), A.pr(V(x))]
    if form == "shadow":
        # the op-assigned variable shadows an outer one of the same name (which must stay untouched)
        x = "s%d" % idx
        return [A.Declare(V(x), A.Int(77)), A.Block([A.Declare(V(x), la), A.OpAssign(op, V(x), lb), A.pr(V(x))]),
                A.If([(A.Bin("!=", V(x), A.Int(77)), [A.pr(A.Str("outer variable changed"))])], None)]
    if form == "elem":
        x = "l%d" % idx
        return [A.Declare(V(x), A.lst(A.Int(7), la)), A.OpAssign(op, A.Index(V(x), A.Int(1)), lb), A.pr(A.Index(V(x), A.Int(1)))]
    if form == "prop":
        x = "o%d" % idx
        return [A.Declare(V(x), A.obj(("p", la))), A.OpAssign(op, A.Prop(V(x), "p", False), lb), A.pr(A.Prop(V(x), "p", False))]
    x = "q%d" % idx
    return [A.Declare(V(x), A.obj(("k y", la))), A.OpAssign(op, A.Index(V(x), A.Str("k y")), lb), A.pr(A.Index(V(x), A.Str("k y")))]


def build_case(desc):
    from .. import printer as P
    kind = desc[0]
    h = int(core.sha(repr(desc))[:8], 16)
    # digit separators, zero padding; one case in three in the compact spelling (`a--3`, `x*-1`, `7%-2`), one in five with free white space (`- 5`)
    lay = P.Layout(seed=h, p_under=0.3, p_zero=0.2 if h % 2 else 0.0, compact=(h % 3 == 0), p_ws=0.3 if h % 5 == 1 else 0.0)
    if kind == "batch":
        _, form, op, pairs = desc
        prog = []
        for i, (a, b) in enumerate(pairs):
            prog += stmts_for(form, op, a, b, i)
        return {"prog": prog, "layout": lay, "expect_error": False, "tags": ["batch:%s:%s" % (form, op)],
                "meta": {"n": len(pairs)}, "post": "post_batch", "pairs": pairs, "op": op, "keep_trace": True,
                "trace": True, "model_kw": {"fuel": 200000}}
    if kind == "single":
        _, form, op, a, b = desc
        prog = [A.pr(A.Str("before"))] + stmts_for(form, op, a, b, 0) + [A.pr(A.Str("after"))]
        return {"prog": prog, "layout": lay, "expect_error": True, "tags": ["fail:%s:%s" % (form, op)],
                "check_pos": True, "check_atoms": True}
    if kind == "law":
        _, pairs = desc
        prog = []
        for a, b in pairs:
            la, lb = lambda: A.lit(a), lambda: A.lit(b)
            if b != 0 and not (a == MIN and b == -1):
                prog.append(A.pr(A.Bin("==", A.Bin("+", A.Bin("*", A.Paren(A.Bin("/", la(), lb())), lb()),
                                                    A.Bin("%", la(), lb())), la())))
            prog.append(A.pr(A.Bin("==", A.Paren(A.Bin("<", la(), lb())), A.Paren(A.Bin(">", lb(), la())))))
            prog.append(A.pr(A.Bin("==", A.Paren(A.Bin("<=", la(), lb())), A.Paren(A.Bin("==", A.Paren(A.Bin(">", la(), lb())), A.Bool(False))))))
            prog.append(A.pr(A.Bin("==", A.Paren(A.Bin("==", la(), lb())), A.Paren(A.Bin("&&", A.Paren(A.Bin("<=", la(), lb())), A.Paren(A.Bin(">=", la(), lb())))))))
        return {"prog": prog, "layout": lay, "expect_error": False, "tags": ["laws"], "post": "post_all_true",
                "model_kw": {"fuel": 200000}}
    if kind == "range":
        _, items = desc
        prog = []
        for a, b in items:
            prog.append(A.pr(A.Range(A.lit(a), A.lit(b))))
        return {"prog": prog, "layout": lay, "expect_error": False, "tags": ["range"], "post": "post_range", "items": items,
                "model_kw": {"fuel": 200000}}
    if kind == "literal":
        _, texts = desc
        return {"skip": "handled separately"}
    raise ValueError(desc)


def post_batch(case, r, res, obs):
    """Independent big-integer oracle on the printed lines (does not use model.py)."""
    out = []
    lines = obs.out.decode().split("\n")[:-1]
    pairs = case["pairs"]
    if len(lines) != len(pairs):
        return [("C06/lines", "expected %d result lines, got %d" % (len(pairs), len(lines)))]
    for (a, b), ln in zip(pairs, lines):
        e = exact(case["op"], a, b)
        exp = ("true" if e else "false") if isinstance(e, bool) else str(e)
        if ln != exp:
            out.append(("C06/value/%s" % case["op"], "%d %s %d printed %s, exact result is %s" % (a, case["op"], b, ln, exp)))
            break
    return out


def post_all_true(case, r, res, obs):
    lines = obs.out.decode().split("\n")[:-1]
    for i, ln in enumerate(lines):
        if ln != "true":
            return [("C06/law", "arithmetic law instance %d printed %r" % (i, ln))]
    return []


def post_range(case, r, res, obs):
    exp = b""
    for a, b in case["items"]:
        exp += b"[\n" + b"".join(b"    %d,\n" % i for i in range(a, b)) + b"]\n"
    if obs.out != exp:
        return [("C06/range", "a .. b is not the ascending list a <= i < b")]
    return []


def literal_cases():
    """(text, expected value or None=rejected)"""
    return [("9223372036854775807", MAX), ("9223372036854775808", None), ("1__0_", 10), ("007", 7), ("0", 0),
            ("1_000_000", 1000000), ("99999999999999999999", None), ("-9223372036854775807", -MAX),
            ("-9223372036854775807 - 1", MIN), ("0_0", 0), ("9_223_372_036_854_775_807", MAX),
            ("18446744073709551616", None), ("-9223372036854775808", None), ("5 - 9223372036854775808", None), ("-5 - 9223372036854775808", None),
            ("00000000000000000042", 42), ("0_000_000_000_000_000_000_009", 9), ("000000000009223372036854775807", 2 ** 63 - 1), ("36893488147419103232", None), ("18446744073709551617", None), ("100000000000000000000", None), ("-0", 0), ("- 5", -5), ("3 - -4", 7), ("3 -4", -1), ("3 - - 4", 7)]


def run(rep, tier):
    from .. import scale
    scale.run(rep, PROP, tier)          # size ladders (seedverif/scale.py): the entries that concern this property
    rng = core.rng_for(PROP)
    descs = []
    cells = 0
    pairs_all = list(itertools.product(GRID, GRID))
    forms = FORMS
    for form in forms:
        for op in ARITH + (CMP if form == "plain" else []):
            good = [(a, b) for a, b in pairs_all if exact(op, a, b) is not None]
            bad = [(a, b) for a, b in pairs_all if exact(op, a, b) is None]
            cells += len(good) + len(bad)
            for i in range(0, len(good), BATCH):
                descs.append(("batch", form, op, tuple(good[i:i + BATCH])))
            for a, b in bad:
                descs.append(("single", form, op, a, b))
    for i in range(0, len(pairs_all), 100):
        descs.append(("law", tuple(pairs_all[i:i + 100])))
    # ranges
    ritems = []
    for a in GRID:
        for d in range(-5, 6):
            b = a + d
            if MIN <= b <= MAX:
                ritems.append((a, b))
    ritems += [(5, 5), (4, 0), (0, 4), (-1, 2), (MAX, MIN), (MIN, MIN + 3)]
    for i in range(0, len(ritems), 60):
        descs.append(("range", tuple(ritems[i:i + 60])))
    # random pairs near the overflow boundaries
    nrand = 12000 if tier == "quick" else 600000
    rnd = {op: [] for op in ARITH + CMP}
    for _ in range(nrand):
        op = rng.choice(ARITH + ARITH + CMP)
        a = rng.choice([rng.randrange(MIN, MAX + 1), rng.randrange(-2 ** 33, 2 ** 33), rng.choice(GRID)])
        x = rng.random()
        d = rng.randrange(-3, 4)
        if op == "*" and a not in (0,) and x < 0.8:
            b = rng.choice([MAX, MIN]) // a + d
        elif op == "+" and x < 0.8:
            b = rng.choice([MAX, MIN]) - a + d
        elif op == "-" and x < 0.8:
            b = a - rng.choice([MAX, MIN]) + d
        elif op in ("/", "%") and x < 0.5:
            b = rng.choice([0, 1, -1, 2, -2, 3, -3, 7])
        elif x < 0.9:
            b = a + d
        else:
            b = rng.randrange(MIN, MAX + 1)
        b = max(MIN, min(MAX, b))
        rnd[op].append((a, b))
    for op, prs in rnd.items():
        good = [p for p in prs if exact(op, *p) is not None]
        bad = [p for p in prs if exact(op, *p) is None]
        form_cycle = itertools.cycle(forms if op in ARITH else ["plain"])
        for i in range(0, len(good), BATCH):
            descs.append(("batch", next(form_cycle), op, tuple(good[i:i + BATCH])))
        for a, b in bad:
            descs.append(("single", next(form_cycle), op, a, b))
        cells += len(prs)

    seen_cells = set()
    hook_events = [0]

    def on_result(res):
        tr = res.get("trace")
        if tr:
            for ln in tr.split("\n"):
                if ln.startswith("B ") and " int int " in ln:
                    parts = ln.split()
                    if len(parts) == 7:
                        seen_cells.add((parts[1], parts[5], parts[6]))
                        hook_events[0] += 1

    rng.shuffle(descs)
    harness.run_cases(rep, "seedverif.checks.c06", descs, {"oracle": "big-integer arithmetic"}, on_result=on_result)

    # literals: one process each, exact value or clean rejection
    lits = literal_cases()
    jobs = [{"src": "print(%s)\n" % t} for t, _ in lits]
    for (t, exp), o in zip(lits, core.run_many(jobs)):
        rep.evaluations += 1
        rep.process_runs += 1
        rep.tally("literals", "accepted" if exp is not None else "rejected")
        if o.crashed:
            rep.violation("C06/literal-crash", "literal %s crashes" % t, {"src": jobs[0]["src"], "observed": o.brief()})
        elif exp is None:
            if o.code != 103 or o.out:
                rep.violation("C06/literal-accept", "out-of-range literal %s accepted" % t, {"src": "print(%s)\n" % t, "observed": o.brief()})
        elif o.code != 0 or o.out != b"%d\n" % exp:
            rep.violation("C06/literal-value", "literal %s printed %r, denotes %d" % (t, o.out, exp),
                          {"src": "print(%s)\n" % t, "observed": o.brief(), "expected": {"exit": 0, "stdout": "%d\n" % exp}})
        rep.distinct.add(core.sha(t))

    rep.exhaustive = True
    rep.rule = ("exhaustive %dx%d boundary grid x {+ - * / %%} in plain form and op-assign on variable/element/property/key, "
                "x {< <= > >= == !=}; plus seeded random 64-bit pairs aimed at the overflow boundaries, arithmetic laws, ranges and literals; "
                "every script is distinct; non-trivial = it evaluates at least one integer operation (all do)" % (len(GRID), len(GRID)))
    rep.extra["grid_values"] = [str(v) for v in GRID]
    rep.extra["operator_cells_generated"] = cells
    rep.cov["hook_binop_events_int_int"] = hook_events[0]
    rep.cov["hook_distinct_op_operand_cells_seen_by_evaluator"] = len(seen_cells)
    rep.assumptions = ["Python big integers are exact", "the statement's rules: truncating division, remainder with the dividend's sign"]
    rep.sample({"form": "plain", "source": "print(9223372036854775807 + 1)", "expected": "exit 103, diagnostic at the operator naming 9223372036854775807, +, 1"})
    rep.sample({"form": "elem", "source": "l0 := [7, 3037000500]; l0[1] *= 3037000500; print(l0[1])", "expected": "exit 103 (overflow)"})
    rep.sample({"form": "law", "source": "print((a / b) * b + a % b == a)", "expected": "true"})
    rep.require("grid cells seen by the evaluator hook", len(seen_cells), 3000)
