"""C08 - expressions group by fixed operator tiers, left to right; parens override."""

import itertools
import random

from .. import astdump, core, harness, printer as P, sast as A

PROP = "C08"
INFIX = A.BINOPS + [".."]
TIER = dict(A.TIER)
TIER[".."] = 1


def mk(op, l, r):
    return A.Range(l, r) if op == ".." else A.Bin(op, l, r)


def natural(operands, ops):
    """Grouping stated by C08: higher tier binds tighter, one tier groups left to right."""
    out = [operands[0]]
    stack = []
    for op, e in zip(ops, operands[1:]):
        while stack and TIER[stack[-1]] >= TIER[op]:
            o = stack.pop()
            r = out.pop()
            l = out.pop()
            out.append(mk(o, l, r))
        stack.append(op)
        out.append(e)
    while stack:
        o = stack.pop()
        r = out.pop()
        l = out.pop()
        out.append(mk(o, l, r))
    return out[0]


def shapes(n):
    """All binary tree shapes with n operators, as functions of (lo, hi) operand index ranges.
    A shape is None (leaf) or (left_shape, right_shape)."""
    if n == 0:
        return [None]
    out = []
    for k in range(n):
        for l in shapes(k):
            for r in shapes(n - 1 - k):
                out.append((l, r))
    return out


SHAPES = {n: shapes(n) for n in range(0, 5)}


def build(shape, operands, ops, lo=0):
    """Build the tree of `shape` over operands[lo:...]; returns (tree, next_operand_index)."""
    if shape is None:
        return operands[lo], lo + 1
    l, mid = build(shape[0], operands, ops, lo)
    r, hi = build(shape[1], operands, ops, mid)
    return mk(ops[mid - 1], l, r), hi


def operand(rng, i, simple=False):
    V = A.Var
    base = rng.choice([A.Int(rng.randrange(0, 99)), A.Int(-rng.randrange(1, 99)), V("v%d" % i), A.Bool(rng.random() < 0.5),
                       A.Str("s"), A.Null(), A.lst(A.Int(1)), A.obj(("k", A.Int(1))), A.ObjectE([A.Pair(A.Bin("+", A.Str("a"), V("v%d" % i)), A.Bin("*", A.Int(2), A.Int(3)))]),
                       A.FuncE([], False, []) if rng.random() < 0.5 else A.FuncE([V("q")], False, [A.Return(A.Bin("+", V("q"), A.Int(1)))])])
    if simple or rng.random() < 0.5:
        return base
    for _ in range(rng.randrange(1, 3)):
        k = rng.randrange(5)
        if k == 0:
            base = A.Call(base, [(A.Int(1), False)] if rng.random() < 0.5 else [])
        elif k == 1:
            base = A.Index(base, A.Int(0))
        elif k == 2:
            base = A.RangeIndex(base, A.Int(0) if rng.random() < 0.5 else None, A.Int(1) if rng.random() < 0.5 else None)
        elif k == 3:
            base = A.Prop(base, "p", False)
        else:
            base = A.Prop(base, "type", True)
    return base


def parse_work(arg):
    """Round-trip a shard of operator sequences through the real parser.
    arg = (n_ops, start, stop, seed, all_shapes)"""
    n, start, stop, seed, all_shapes = arg
    rng = random.Random(seed)
    texts, expects, metas = [], [], []
    for idx in range(start, stop):
        ops = []
        x = idx
        for _ in range(n):
            ops.append(INFIX[x % len(INFIX)])
            x //= len(INFIX)
        shp_list = SHAPES[n] if all_shapes else [None]
        for si, shp in enumerate(shp_list):
            operands = [operand(rng, i) for i in range(n + 1)]
            if shp is None and n > 0:
                tree = natural(operands, ops)
                is_nat = True
            else:
                tree, _ = build(shp, operands, ops) if n else (operands[0], 1)
                is_nat = False
            # the expression in every statement position that takes one (the grouping must not depend on the host)
            host = rng.randrange(16)
            if host == 0:
                prog = [A.Assign(A.Var('r'), tree)]
            elif host == 1:
                prog = [A.OpAssign(rng.choice(["+", "-", "*", "/", "%"]), A.Var('r'), tree)]
            elif host == 2:
                prog = [A.ExprStmt(tree)] if not isinstance(tree, (A.ObjectE, A.FuncE)) and not _starts_with_brace(tree) else [A.Declare(A.Var('r'), tree)]
            elif host == 3:
                prog = [A.While(tree, [])]
            elif host == 4:
                prog = [A.If([(A.Bool(True), []), (tree, [])], None)]
            elif host == 5:
                prog = [A.For(A.Var('k'), tree, [])]
            elif host == 6:
                prog = [A.FuncStmt("h", [], False, [A.Return(tree)])]
            elif host == 7:
                prog = [A.Declare(A.Var('r'), A.ObjectE([A.Pair(tree, A.Int(1)), A.Pair(A.Str("v"), A.clone(tree))]))]
            elif host == 8:
                prog = [A.Declare(A.Var('r'), A.Index(A.Var("xs"), tree)), A.Assign(A.RangeIndex(A.Var("xs"), A.clone(tree), None), A.lst())]
            elif host == 9:
                prog = [A.Declare(A.Var('r'), A.RangeIndex(A.Var("xs"), None, tree)), A.Declare(A.Var('q'), A.RangeIndex(A.Var("xs"), A.clone(tree), A.clone(tree)))]
            elif host == 10:
                prog = [A.Declare(A.Var('r'), A.ListE([(tree, False), (A.clone(tree), False)], False)), A.Declare(A.Var('q'), A.ListE([(A.Int(0), False), (A.clone(tree), True)], False))]
            elif host == 11:
                prog = [A.ExprStmt(A.Call(A.Var("f"), [(tree, False), (A.clone(tree), True)])), A.Declare(A.lst(A.Var("p"), A.Index(A.Var("xs"), A.clone(tree))), A.Var("ys"))]
            elif host == 12:
                prog = [A.Declare(A.Var('r'), A.IStr(["a", tree, "b"]))] if not _has_string(tree) else [A.Declare(A.Var('r'), tree)]
            else:
                prog = [A.Declare(A.Var('r'), tree)]
            variants = [("minimal", P.Layout())]
            if rng.random() < 0.5:
                variants.append(("redundant", P.Layout(seed=rng.random(), p_paren=0.35, p_ws=0.2, p_trail=0.4)))
            if rng.random() < 0.5:
                variants.append(("compact", P.Layout(compact=True)))     # no optional white space at all: `xs[0]-1`, `a--1`
            for vname, lay in variants:
                r = P.render(prog, lay)
                if is_nat and vname == "minimal" and "(" in _strip_operand_parens(r.text, operands):
                    pass
                texts.append(r.text)
                expects.append("ok|" + astdump.dump(prog, r))
                metas.append((tuple(ops), si, vname))
        if n > 0:
            # the flat, parenthesis-free spelling must parse as the natural grouping
            operands = [operand(rng, i, simple=True) for i in range(n + 1)]
            tree = natural(operands, ops)
            prog = [A.Declare(A.Var('r'), tree)]
            r = P.render(prog, P.Layout())
            flat = flat_text(operands, ops)
            texts.append(flat)
            expects.append(("flat", astdump.strip_pos("ok|" + astdump.dump(prog, r))))
            metas.append((tuple(ops), -1, "flat"))
    got = core._dump_shard(("ast", texts, core.BIN_VERIF))
    bad = []
    for t, e, g, m in zip(texts, expects, got, metas):
        if isinstance(e, tuple):
            if astdump.strip_pos(g) != e[1]:
                bad.append((m, t, e[1], g))
        elif g != e:
            bad.append((m, t, e, g))
    smp = None
    if texts:
        j = len(texts) // 2
        smp = {"source": texts[j], "expected_tree": expects[j] if not isinstance(expects[j], tuple) else expects[j][1], "parser_tree": got[j]}
    return {"n": len(texts), "bad": bad[:5], "nbad": len(bad), "ops": n, "shas": {core.sha(t)[:12] for t in texts}, "sample": smp}


def _starts_with_brace(e):
    """does the expression's spelling begin with `{` or `fn` (which a statement would read as a block / a definition)?"""
    while True:
        if isinstance(e, (A.ObjectE, A.FuncE)):
            return True
        if isinstance(e, A.Bin):
            e = e.l
        elif isinstance(e, A.Range):
            e = e.a
        elif isinstance(e, (A.Call,)):
            e = e.f
        elif isinstance(e, (A.Index, A.RangeIndex, A.Prop)):
            e = e.e
        else:
            return False


def _has_string(e):
    """string literals inside a slot need care with quoting: keep those trees out of slots"""
    return any(isinstance(n, (A.Str, A.StrLit, A.IStr, A.ObjectE)) for n in A.walk(e))


def _strip_operand_parens(text, operands):
    return text


def flat_text(operands, ops):
    """Spell `e0 o1 e1 ...` with no grouping parentheses at all (operands are atoms)."""
    parts = [atom_text(operands[0])]
    for op, e in zip(ops, operands[1:]):
        parts.append(op)
        parts.append(atom_text(e))
    return "r := " + " ".join(parts) + "\n"


def atom_text(e):
    r = P.render([A.ExprStmt(A.clone(e))], P.Layout())
    return r.text.strip()


# ------------------------------------------------------------------ evaluation through the CLI

VALS = {
    "int": [2, 3, 5, 7, 11, 13],
}


def build_case(desc):
    """desc = (ops tuple, operand-kind code, seed)"""
    ops, kinds, seed = desc
    rng = random.Random(seed)
    operands = []
    for i, k in enumerate(kinds):
        if k == "i":
            operands.append(A.Int([2, 3, 5, 7, 11][i % 5]))
        elif k == "n":
            operands.append(A.Int(-[2, 3, 5, 7, 11][i % 5]))
        elif k == "b":
            operands.append(A.Bool(i % 2 == 0))
        elif k == "l":
            operands.append(A.lst(A.Int(i)))
        elif k == "s":
            operands.append(A.Str("s%d" % i))
    tree = natural(operands, list(ops))
    prog = [A.pr(A.Str("start")), A.pr(tree)]
    return {"prog": prog, "check_pos": True, "check_atoms": True, "tags": ["eval:%d" % len(ops)],
            "post": "post_flat", "ops": ops}


def post_flat(case, r, res, obs):
    # guard: the natural grouping must print without any grouping parentheses
    body = r.text.split("\n", 1)[1]
    inner = body[len("print("):body.rindex(")")]
    if "(" in inner.replace("[", "").replace("]", ""):
        return [("C08/printer", "natural grouping printed with parentheses: %r" % inner)]
    return []


def run(rep, tier):
    from .. import scale
    scale.run(rep, PROP, tier)          # size ladders (seedverif/scale.py): the entries that concern this property
    rng = core.rng_for(PROP)
    nmax = 3 if tier == "quick" else 4
    jobs = []
    K = len(INFIX)
    for n in range(0, nmax + 1):
        total = K ** n
        step = 128 if n < 4 else 256
        # every tree shape for every operator sequence (5 shapes for 3 operators, 14 for 4)
        for s in range(0, total, step):
            jobs.append((n, s, min(total, s + step), rng.randrange(1 << 30), True))
    ntexts = 0
    adjacency = {}
    for res in core.pool().imap_unordered(parse_work, jobs, chunksize=1):
        ntexts += res["n"]
        rep.distinct.update(res["shas"])
        rep.evaluations += res["n"]
        rep.tally("parse_roundtrips_by_operator_count", str(res["ops"]), res["n"])
        if res.get("sample") and res["ops"] >= 2:
            rep.actual_sample(res["sample"])
        for m, text, exp, got in res["bad"]:
            ops, si, vname = m
            rep.violation("C08/parse/%s" % vname,
                          "the parser's tree differs from the tree the text was printed from (ops %s, shape %s): %r" % (" ".join(ops), si, text.strip()),
                          {"src": text, "oracle": "parser round trip (%s)" % vname, "expected_tree": exp, "observed_tree": got})
    # random deep trees
    ndeep = 3000 if tier == "quick" else 60000
    deep_jobs = [(rng.randrange(1 << 30), 250) for _ in range(ndeep // 250)]
    for res in core.pool().imap_unordered(deep_work, deep_jobs, chunksize=1):
        rep.evaluations += res["n"]
        rep.distinct.update(res["shas"])
        rep.tally("parse_roundtrips_by_operator_count", "random-deep", res["n"])
        for text, exp, got in res["bad"]:
            rep.violation("C08/parse/deep", "random deep tree does not round-trip: %r" % text.strip()[:200],
                          {"src": text, "oracle": "parser round trip (deep)", "expected_tree": exp, "observed_tree": got})
        for k, v in res["adj"].items():
            adjacency[k] = adjacency.get(k, 0) + v
    # evaluation through the unhooked CLI path
    descs = []
    kinds_pool = ["i", "n", "b", "l", "s"]
    for n in range(1, 4):
        for ops in itertools.product(INFIX, repeat=n):
            ks = ["".join(rng.choice("iiinb") for _ in range(n + 1)), "i" * (n + 1)]
            if tier == "thorough" or n < 3:
                ks.append("".join(rng.choice(kinds_pool) for _ in range(n + 1)))
            for k in set(ks):
                descs.append((ops, k, rng.randrange(1 << 30)))
    if tier == "quick":
        rng.shuffle(descs)
        keep = [d for d in descs if len(d[0]) < 3] + [d for d in descs if len(d[0]) == 3][:5000]
        descs = keep
    harness.run_cases(rep, "seedverif.checks.c08", descs, {"oracle": "model evaluation of the intended grouping"})
    rep.exhaustive = True
    rep.rule = ("every sequence of the 16 infix forms up to length %d x every tree shape printed with only the necessary parentheses, "
                "with redundant parentheses, and as a flat parenthesis-free spelling, parsed by the real parser (AST dump hook) and compared with the tree it was printed from; "
                "random deep trees; flat sequences evaluated through the CLI against the model; distinct = distinct source texts (all are, operands vary); "
                "non-trivial = contains at least one infix operator") % nmax
    rep.cov["operator_adjacency_pairs_seen"] = len(adjacency)
    rep.sample({"ops": "+ * ==", "flat": "1 + 2 * 3 == 7", "expected_tree": "(Sum 1 (Eq (Mul 2 3) 7))"})
    rep.sample({"ops": ".. && -", "flat": "a .. b && c - d", "expected_tree": "(Range a (And b (Sub c d)))"})
    rep.sample({"redundant": "((1)) - (2 - (3))", "expected_tree": "(Sub 1 (Sub 2 3))"})
    rep.require("operator adjacency pairs (16x16)", len(adjacency), 256)


def deep_work(arg):
    seed, count = arg
    rng = random.Random(seed)
    texts, expects = [], []
    adj = {}

    def tree(d):
        if d <= 0 or rng.random() < 0.25:
            return operand(rng, rng.randrange(9))
        op = rng.choice(INFIX)
        l = tree(d - 1)
        r = tree(d - 1)
        for side in (l, r):
            if isinstance(side, (A.Bin, A.Range)):
                o2 = side.op if isinstance(side, A.Bin) else ".."
                adj[(op, o2)] = adj.get((op, o2), 0) + 1
        return mk(op, l, r)

    for _ in range(count):
        t = tree(rng.randrange(2, 6))
        prog = [A.Declare(A.Var('r'), t)]
        lay = P.Layout(seed=rng.random(), p_paren=rng.choice([0, 0, 0.2]), p_ws=rng.choice([0, 0.3]), p_break=rng.choice([0, 0.3]), compact=rng.random() < 0.4)
        r = P.render(prog, lay)
        texts.append(r.text)
        expects.append("ok|" + astdump.dump(prog, r))
    got = core._dump_shard(("ast", texts, core.BIN_VERIF))
    bad = [(t, e, g) for t, e, g in zip(texts, expects, got) if e != g]
    return {"n": len(texts), "bad": bad[:5], "adj": adj, "shas": {core.sha(t)[:12] for t in texts}}
