"""C03 - the front end accepts or cleanly rejects every input, before running anything."""

import itertools
import os
import random
import re
import subprocess

from .. import core, judge, printer as P, progen as G, reflex, sast as A

PROP = "C03"
ALPHABET = list("{}[]():,/.=><%*-+&|!$\"\\#;\n _09ax'~") + ["é", "\t", "if ", "fn ", "in ", "x..", "\\x", "${", "\r", "٣", "²"]

HDR1 = re.compile(r"^t\.sd:(\d+):(\d+): (.+)\n$", re.S)


def mutate_text(rng, text):
    k = rng.randrange(7)
    if not text:
        return text
    i = rng.randrange(len(text))
    if k == 0:
        return text[:i] + text[i + 1:]
    if k == 1:
        return text[:i] + rng.choice(ALPHABET) + text[i:]
    if k == 2:
        return text[:i] + rng.choice(ALPHABET) + text[i + 1:]
    if k == 3:
        j = rng.randrange(len(text))
        a, b = min(i, j), max(i, j)
        return text[:a] + text[b:]
    if k == 4:
        return text[:i] + rng.choice(["é", "✓", "😀", "\u00a0", "\u2028", "\x0b", "\x00", "٣", "²", "½", "０", "Ⅷ"]) + text[i:]
    if k == 5:
        j = rng.randrange(len(text))
        a, b = min(i, j), max(i, j)
        return text[:a] + text[a:b] * 2 + text[b:]
    return text[:i] + text[i:][::-1][:rng.randrange(1, 6)] + text[i:]


def token_mutations(rng, rendered):
    """Delete / duplicate / swap / replace one token of a valid program."""
    toks = [it for it in rendered.items if isinstance(it, P.Tok)]
    if not toks:
        return rendered.text
    texts = []
    for it in rendered.items:
        texts.append(it.text if isinstance(it, P.Tok) else "\n")
    i = rng.randrange(len(texts))
    k = rng.randrange(4)
    if k == 0:
        del texts[i]
    elif k == 1:
        texts.insert(i, texts[i])
    elif k == 2:
        j = rng.randrange(len(texts))
        texts[i], texts[j] = texts[j], texts[i]
    else:
        texts[i] = rng.choice(list(P.SYMBOL_KIND) + A.KEYWORDS + ["x", "1", '"s"', '$"${x}"', "\n"])
    return " ".join(texts) + "\n"


def gen_inputs(arg):
    """Worker: build a shard of inputs, push them through both dump hooks, judge the
    token stream against the reference lexer.  Returns findings + a sample for CLI runs."""
    family, seed, count = arg
    rng = random.Random(seed)
    texts = []
    if family == "short":
        lo, hi, n = count
        A_ = ALPHABET
        for idx in range(lo, hi):
            x = idx
            s = []
            for _ in range(n):
                s.append(A_[x % len(A_)])
                x //= len(A_)
            texts.append("".join(s))
    elif family == "mutate":
        for _ in range(count // 8):
            prog, g = G.generate(rng.randrange(1 << 40), size=rng.choice([3, 6, 12]))
            r = P.render(prog, P.Layout.random(rng.random()) if rng.random() < 0.5 else None)
            texts.append(r.text)
            for _ in range(4):
                texts.append(mutate_text(rng, r.text))
            for _ in range(3):
                texts.append(token_mutations(rng, r))
    elif family == "truncate":
        for _ in range(max(1, count // 300)):
            prog, g = G.generate(rng.randrange(1 << 40), size=rng.choice([3, 6, 10]))
            r = P.render(prog, P.Layout.random(rng.random()))
            t = r.text
            for k in range(len(t) + 1):
                texts.append(t[:k])
    elif family == "strings":
        # literals with every kind of ending / escape / slot shape
        parts = ['"', '$"', "\\", "\\x", "\\x4", "\\x41", "\\xg", "\\q", "$", "${", "}", "{", "a", "é", "\n", '\\"', "\\$", "${x}", "${{}}", " ", "#",
                 "\\x4\u0141", "\\x\u01311", "\u0663", " 9223372036854775808 ", " 9223372036854775807 ", " 99999999999999999999999_ ", " 1_2__ ", " 0x1 "]
        for _ in range(count):
            k = rng.randrange(1, 7)
            texts.append("x := " + "".join(rng.choice(parts) for _ in range(k)) + rng.choice(["", "\n", '"\n', '"']))
    elif family == "unicode":
        pool = [chr(c) for c in list(range(0, 128)) + [0xa0, 0xe9, 0x2028, 0x2713, 0x1f600, 0xfeff, 0x301, 0x663, 0xb2, 0xbd, 0xff10, 0x2167, 0x1d7d9]]
        for _ in range(count):
            texts.append("".join(rng.choice(pool) for _ in range(rng.randrange(0, 40))))
    tok_lines = core._dump_shard(("tokens", texts, core.BIN_VERIF))
    ast_lines = core._dump_shard(("ast", texts, core.BIN_VERIF))
    out = {"n": len(texts), "bad": [], "lexerr": {}, "parseerr": {}, "accepted": 0, "unspec": 0, "cli": [], "family": family,
           "shas": set()}
    for t, tl, al in zip(texts, tok_lines, ast_lines):
        out["shas"].add(core.sha(t)[:12])
        toks, err, ends = reflex.parse_dump(tl)
        if toks is None and err[0] == "skipped":
            continue
        if toks is None:
            out["bad"].append(("lexer-" + err[0], "lexer %s on %r: %s" % (err[0], t[:80], err[1][:200]), t))
            continue
        if err and err[0] == "stuck":
            out["bad"].append(("lexer-stuck", "scanner yields more tokens than the input has characters: %r" % t[:80], t))
            continue
        if al == "skipped":
            continue
        if al == "hang":
            out["bad"].append(("parser-hang", "the parser does not terminate on %r" % t[:80], t))
            continue
        if al.startswith("panic|"):
            out["bad"].append(("parser-panic", "parser panics on %r: %s" % (t[:80], bytes.fromhex(al[6:]).decode("utf-8", "replace")[:200]), t))
            continue
        if not err:
            dropped = reflex.dropped_input(t, toks, ends)
            if dropped:
                out["bad"].append(("dropped-input", "the lexer silently skipped %r at byte %d of %r (only whitespace, comments and statement terminators may be skipped)" % (dropped[0], dropped[1], t[:80]), t))
                continue
        rt, rerr, unspec = reflex.lex(t)
        if unspec:
            out["unspec"] += 1
        else:
            if err != rerr:
                out["bad"].append(("lex-error", "first lexical error %s, reference lexer says %s, for %r" % (err, rerr, t[:80]), t))
            elif toks != rt:
                k = next((i for i, (a, b) in enumerate(zip(toks, rt)) if a != b), min(len(toks), len(rt)))
                out["bad"].append(("tokens", "token %d is %s, reference lexer says %s, for %r" % (
                    k, toks[k] if k < len(toks) else None, rt[k] if k < len(rt) else None, t[:80]), t))
        if err:
            out["lexerr"][err[0]] = out["lexerr"].get(err[0], 0) + 1
        if al.startswith("ok|"):
            out["accepted"] += 1
            acc = True
        else:
            f = al.split("|")
            out["parseerr"][f[1]] = out["parseerr"].get(f[1], 0) + 1
            acc = False
            # a lexical error found by the token dump must be the parser's error as well
            if err and f[1] != "Lex":
                # (the parser may stop at a syntax error located before the lexical error)
                pass
        if rng.random() < (0.08 if family != "short" else 0.01):
            out["cli"].append((t, acc, al))
    return out


def cli_work(arg):
    text, acc, al = arg
    o = core.run_one({"src": text, "timeout": 5.0})
    out = {"text": text, "viol": None, "note": None}
    nlines = text.count("\n") + 1
    if o.timeout:
        if acc:
            out["note"] = "accepted-program-did-not-finish (not judged: evaluation, not the front end)"
        else:
            out["viol"] = ("hang", "rejected input does not terminate")
        return out
    if o.stack_overflow:
        out["note"] = "stack overflow"
        return out
    if o.crashed:
        errtxt = o.err.decode("utf-8", "replace")
        if acc and not re.search(r"panicked at [^\n]*(src/lexer|src/parser|lalrpop|src/main\.rs)", errtxt):
            # the parser accepted the whole file (hook) and the process died while *running* it (a mutated program can print or compare
            # a container that holds itself): that is evaluation, outside C03's statement; C02 judges crashes of running programs
            out["note"] = "accepted-program-died-while-running (not judged: evaluation, not the front end)"
            return out
        out["viol"] = ("crash", "crash (exit %s): %s" % (o.code, errtxt[-200:]))
        return out
    if not acc:
        m = HDR1.match(o.err.decode("utf-8", "replace"))
        if o.code != 103:
            out["viol"] = ("reject-exit", "the parser rejects this input but the run exits %s" % o.code)
        elif o.out:
            out["viol"] = ("ran-before-reject", "a rejected file produced output %r" % o.out[:80])
        elif not m:
            out["viol"] = ("reject-format", "rejection is not one line <path>:<line>:<col>: <message>: %r" % o.err[:200])
        else:
            ln = int(m.group(1))
            if ln > nlines + 1 or ln < 1:
                out["viol"] = ("reject-line", "reported line %d but the file has %d lines" % (ln, nlines))
            f = al.split("|")
            # the CLI must report the position the parser reported through the hook
            try:
                hl, hc = (int(f[3]), int(f[4])) if f[1] == "Lex" else (int(f[2]), int(f[3]))
                if (ln, int(m.group(2))) != (hl, hc):
                    out["viol"] = ("reject-pos", "CLI reports %s:%s, parser error is at %s:%s" % (m.group(1), m.group(2), hl, hc))
            except (ValueError, IndexError):
                pass
            if "\n" in m.group(3).rstrip("\n") and "Stacktrace" in m.group(3):
                out["viol"] = ("reject-format", "rejection carries a stack trace")
    else:
        if o.code not in (0, 103):
            out["viol"] = ("accept-exit", "accepted input exits %s" % o.code)
    return out


def run(rep, tier):
    from .. import scale
    scale.run(rep, PROP, tier)          # size ladders (seedverif/scale.py): the entries that concern this property
    rng = core.rng_for(PROP)
    jobs = []
    K = len(ALPHABET)
    nmax = 3 if tier == "quick" else 4
    for n in range(0, nmax + 1):
        total = K ** n
        step = 4000 if n < 4 else 20000
        for s in range(0, total, step):
            jobs.append(("short", 0, (s, min(total, s + step), n)))
    scale = 1 if tier == "quick" else 12
    for _ in range(6 * scale):
        jobs.append(("mutate", rng.randrange(1 << 40), 1600))
    for _ in range(8 * scale):
        jobs.append(("truncate", rng.randrange(1 << 40), 1500))
    for _ in range(4 * scale):
        jobs.append(("strings", rng.randrange(1 << 40), 2500))
    for _ in range(2 * scale):
        jobs.append(("unicode", rng.randrange(1 << 40), 2500))
    if tier == "thorough":
        total = K ** 5
        for _ in range(150):
            s = rng.randrange(0, total - 4000)
            jobs.append(("short", 0, (s, s + 4000, 5)))
    cli = []
    for res in core.pool().imap_unordered(gen_inputs, jobs, chunksize=1):
        rep.evaluations += res["n"]
        rep.distinct.update(res["shas"])
        rep.tally("inputs_by_family", res["family"], res["n"])
        rep.tally("front_end", "accepted", res["accepted"])
        rep.tally("front_end", "unspecified_corner_not_compared", res["unspec"])
        for k, v in res["lexerr"].items():
            rep.tally("lex_errors", k, v)
        for k, v in res["parseerr"].items():
            rep.tally("parse_errors", k, v)
        for sig, what, text in res["bad"]:
            rep.violation("C03/" + sig, what, {"src": text, "oracle": "token dump vs reference lexer"})
        cli += res["cli"]
        for t, acc, al in res["cli"][:1]:
            rep.actual_sample({"family": res["family"], "input": t[:400], "parser": "accepted" if acc else al[:120]})
    rng.shuffle(cli)
    ncli = 5000 if tier == "quick" else 60000
    cli = cli[:ncli]
    # parse-before-run: printing statements followed by a lexical or syntax error on a later line
    pbr = []
    tails = ["x := &", "y := 1 +", "print(1", "z := \"abc\\q\"", "w := 99999999999999999999", "if true {", "}", "print(1))",
             "a := $\"$x\"", "b := \"$\"", "fn (", "else {}", "x = = 1", "for in xs {}", "1 2", "é", "x := 1 ..", "[1, 2", "@",
             "x \"a" + "é" * 40 + "\"", "x $\"" + "✓" * 30 + "${y}\"", "x " + "long_identifier_" * 8, "x 1" + "0" * 17, "f(1) \"" + "😀" * 15 + "\""]
    for t in tails:
        for n in (1, 3):
            for sep in ("\n", ";"):
                pbr.append(("".join("print(%d)%s" % (i, sep) for i in range(n)) + "\n" * rng.randrange(0, 3) + t + "\n", False, None))
    res_cli = core.pmap(cli_work, cli + [(t, False, "err|?|0|0|") for t, _, _ in []], chunksize=16)
    for r in res_cli:
        rep.evaluations += 1
        rep.process_runs += 1
        if r["note"]:
            rep.tally("cli", r["note"])
        else:
            rep.tally("cli", "judged")
        if r["viol"]:
            rep.violation("C03/cli-" + r["viol"][0], r["viol"][1] + " for %r" % r["text"][:80], {"src": r["text"], "oracle": "CLI accept/reject consistency"})
    obs = core.run_many([{"src": t} for t, _, _ in pbr])
    for (t, _, _), o in zip(pbr, obs):
        rep.evaluations += 1
        rep.process_runs += 1
        rep.tally("cli", "parse_before_run")
        rep.distinct.add(core.sha(t)[:12])
        if o.crashed:
            rep.violation("C03/cli-crash", "crash on %r" % t, {"src": t, "observed": o.brief()})
        elif o.code != 103 or o.out != b"" or not HDR1.match(o.err.decode("utf-8", "replace")):
            rep.violation("C03/parse-before-run", "a file with a lexical/syntax error must not run any statement and must be rejected with one located line: exit %s stdout %r stderr %r" % (o.code, o.out[:60], o.err[:120]),
                          {"src": t, "observed": o.brief(), "expected": {"exit": 103, "stdout": ""}})
    from .. import rawfiles
    rawfiles.run(rep, PROP)
    # long flat inputs: the scanner and parser must not recurse per token / per skipped line
    N = 60000 if tier == "quick" else 400000
    long_inputs = [
        ("blank_lines", "\n" * N + "print(1)\n", 0), ("semicolons", ";" * N + "print(1)\n", 0), ("comment_lines", "# c\n" * N + "print(1)\n", 0),
        ("spaces", " " * N + "print(1)\n", 0), ("crlf_lines", "\r\n" * N + "print(1)\n", 0), ("mixed_terminators", ";\n \t;# x\n" * (N // 4) + "print(1)\n", 0),
        ("statements", "x := 1\n" + "x = x\n" * (N // 4) + "print(x)\n", 0), ("long_string", "print(\"" + "aé" * (N // 2) + "\"->len())\n", 0),
        ("long_identifier", "x" * N + " := 1\n", 0), ("long_int_zeros", "x := " + "0" * N + "1\n", 0), ("many_items", "print([" + "1, " * (N // 4) + "1]->type())\n", 0),
        ("unclosed_parens", "(" * N, 103), ("closers", ")" * N, 103), ("long_comment", "#" + "é;" * N + "\nprint(1)\n", 0),
        ("nested_parens", "print(" + "(" * (N // 8) + "1" + ")" * (N // 8) + ")\n", 0), ("illegal_after_long_run", "\n" * N + "&\n", 103),
    ]
    obs = core.run_many([{"src": t, "timeout": 60.0} for _, t, _ in long_inputs], chunksize=1)
    for (name, t, want), o in zip(long_inputs, obs):
        rep.evaluations += 1
        rep.process_runs += 1
        rep.tally("cli", "long_flat_input")
        rep.distinct.add(core.sha(name + str(N))[:12])
        if o.timeout:
            rep.note_inconclusive("long flat input %s timed out" % name)
        elif o.crashed or o.stack_overflow:
            rep.violation("C03/long-input/" + name, "a long but flat input (%s, %d characters) kills the front end: exit %s %s" % (name, len(t), o.code, o.err.decode("utf-8", "replace")[-160:]),
                          {"src": "(generated) " + name + " x " + str(N), "observed": {"exit": o.code, "stderr": o.err.decode("utf-8", "replace")[-400:]}})
        elif o.code != want:
            rep.violation("C03/long-input-exit/" + name, "long flat input %s: exit %s, expected %s" % (name, o.code, want),
                          {"src": "(generated) " + name + " x " + str(N), "observed": {"exit": o.code, "stderr": o.err.decode("utf-8", "replace")[-400:]}})
        elif name == "illegal_after_long_run" and not o.err.decode("utf-8", "replace").startswith("t.sd:%d:1:" % (N + 1)):
            rep.violation("C03/long-input-position", "illegal character on line %d reported as %r" % (N + 1, o.err[:60]), {"src": "(generated) " + name})
    # invalid UTF-8
    bad_utf8 = [b"print(1)\n\xff\n", b"\x80", b"x := \"\xc3\"\n", b"print(1)\n# \xe2\x28\xa1\n", b"\xf0\x9f\x98\n", b"\xed\xa0\x80"]
    obs = core.run_many([{"src": b} for b in bad_utf8])
    for b, o in zip(bad_utf8, obs):
        rep.evaluations += 1
        rep.process_runs += 1
        rep.tally("cli", "invalid_utf8")
        rep.distinct.add(core.sha(b)[:12])
        e = o.err.decode("utf-8", "replace")
        if o.crashed or o.code != 103 or o.out or not e.startswith("t.sd:") or e.count("\n") != 1:
            rep.violation("C03/non-utf8", "non-UTF-8 file must be rejected with one read-error line, exit 103, empty stdout: exit %s stdout %r stderr %r" % (o.code, o.out[:40], o.err[:120]),
                          {"src": b, "observed": o.brief()})
    rep.exhaustive = True
    rep.rule = ("all strings over a %d-symbol alphabet up to length 3 (exhaustive; length 4 exhaustive and length 5 sampled in thorough), byte- and token-level mutations of generated valid programs, "
                "truncations at every offset, string-literal fragment soup, arbitrary Unicode; every input goes through the token dump and AST dump hooks of the real lexer/parser "
                "and the token stream is compared with the reference lexer; a sample is also run through the CLI; distinct by SHA-1; non-trivial = non-empty input (all but one)") % K
    rep.sample({"input": "x := &", "expected": "rejected: 1:6 unexpected '&', exit 103, empty stdout"})
    rep.sample({"input": "print(0)\nprint(1)\n\nx := \"abc\\q\"\n", "expected": "rejected, nothing printed"})
    rep.sample({"input": "\"\\x4", "expected": "unspecified corner (end of input inside a literal): only crash/hang freedom required"})
    rep.assumptions = ["reference lexer seedverif/reflex.py transcribes the token rules stated in C03/C09/C15/C18",
                       "inputs ending inside a string literal or with `$` not followed by a quote are compared only for crash freedom"]
    rep.require("inputs through the dump hooks", rep.evaluations, 50000)
    rep.require("lex error kinds seen", len(rep.cov.get("lex_errors", {})), 6)
