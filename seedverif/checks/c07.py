"""C07 - control flow: branches, loops, break/continue/return reach exactly their target."""

import itertools
import random

from .. import core, harness, sast as A
from ..monitors import escape

PROP = "C07"
V, I, S = A.Var, A.Int, A.Str
CONSTRUCTS = ["block", "if_taken", "else_taken", "elseif_taken", "while", "for_list", "for_string", "for_object", "call", "method"]
JUMPS = ["none", "break", "continue", "return"]
WRAPS = ["top", "fn", "fn_loop"]
GUARDS = ["always", "second"]


def probe(label, val):
    """t(label, value): prints the label, returns the value - makes evaluation of a condition visible."""
    return A.call("t", S(label), val)


def jump_stmt(j, lvl):
    if j == "break":
        return A.Break()
    if j == "continue":
        return A.Continue()
    return A.Return(S("ret%d" % lvl))


def level(spec, lvl):
    """Statements for the construct at nesting level lvl; spec = [(construct, jump, guard), ...]."""
    if lvl >= len(spec):
        return []
    c, j, guard = spec[lvl]
    tag = "L%d" % lvl
    inner = [A.pr(S("in " + tag))] + level(spec, lvl + 1) + [A.pr(S("after child " + tag))]
    if j != "none":
        js = jump_stmt(j, lvl)
        if guard == "second" and c in ("while", "for_list", "for_string", "for_object"):
            inner.append(A.If([(A.Bin("==", V("n" + tag), I(2)), [A.pr(S("jump " + tag)), js])], None))
        else:
            inner.append(js)
        inner.append(A.pr(S("after jump " + tag)))
    cnt = "n" + tag
    if c == "block":
        body = [A.Block(inner)]
    elif c == "if_taken":
        body = [A.If([(probe("c1 " + tag, A.Bool(True)), inner), (probe("c2-must-not-run " + tag, A.Bool(True)), [A.pr(S("WRONG branch"))])], [A.pr(S("WRONG else"))])]
    elif c == "else_taken":
        body = [A.If([(probe("c1 " + tag, A.Bool(False)), [A.pr(S("WRONG branch"))])], inner)]
    elif c == "elseif_taken":
        body = [A.If([(probe("c1 " + tag, A.Bool(False)), [A.pr(S("WRONG branch"))]), (probe("c2 " + tag, A.Bool(True)), inner),
                      (probe("c3-must-not-run " + tag, A.Bool(True)), [A.pr(S("WRONG branch"))])], [A.pr(S("WRONG else"))])]
    elif c == "while":
        body = [A.Declare(V(cnt), I(0)),
                A.While(probe("cond " + tag, A.Bin("<", V(cnt), I(3))), [A.OpAssign("+", V(cnt), I(1)), A.pr(V(cnt))] + inner),
                A.pr(A.Bin("+", S("iterations " + tag + " "), A.Call(A.Prop(V(cnt), "type", True), []))), A.pr(V(cnt))]
    elif c in ("for_list", "for_string", "for_object"):
        it = {"for_list": A.lst(S("p"), S("q"), S("r")), "for_string": S("xyz"),
              "for_object": A.obj(("b", S("q")), ("a", S("p")), ("c", S("r")))}[c]
        body = [A.Declare(V(cnt), I(0)),
                A.For(A.lst(V("k" + tag), V("v" + tag)), it, [A.OpAssign("+", V(cnt), I(1)), A.pr(V("k" + tag)), A.pr(V("v" + tag))] + inner),
                A.pr(V(cnt))]
    elif c == "call":
        body = [A.FuncStmt("f" + tag, [], False, inner), A.Declare(V("r" + tag), A.call("f" + tag)), A.pr(S("returned " + tag)), A.pr(V("r" + tag))]
    elif c == "method":
        body = [A.Declare(V("o" + tag), A.obj(("m", A.FuncE([], False, inner)))),
                A.Declare(V("r" + tag), A.Call(A.Prop(V("o" + tag), "m", False), [])), A.pr(S("returned " + tag)), A.pr(V("r" + tag))]
    else:
        raise ValueError(c)
    return [A.pr(S("before " + tag))] + body + [A.pr(S("after " + tag))]


def prelude():
    return [A.FuncStmt("t", [V("label"), V("v")], False, [A.pr(V("label")), A.Return(V("v"))])]


def wrap(stmts, w):
    if w == "top":
        return stmts
    if w == "fn":
        return [A.FuncStmt("rootf", [], False, stmts + [A.Return(S("rootf end"))]), A.pr(A.call("rootf")), A.pr(S("after rootf"))]
    return [A.FuncStmt("rootf", [], False, [A.For(V("rk"), A.lst(I(1), I(2)), [A.pr(V("rk"))] + stmts + [A.pr(S("loop tail"))]),
                                            A.Return(S("rootf end"))]), A.pr(A.call("rootf")), A.pr(S("after rootf"))]


def snapshot_cases():
    P = A.pr
    cases = {}
    cases["list_elem_assign"] = [A.Declare(V("xs"), A.lst(I(1), I(2), I(3))),
                                 A.For(A.lst(V("i"), V("v")), V("xs"), [A.Assign(A.Index(V("xs"), I(2)), I(99)), P(V("v"))]), P(V("xs"))]
    cases["list_rebind_grow"] = [A.Declare(V("xs"), A.lst(I(1), I(2))),
                                 A.For(A.lst(V("i"), V("v")), V("xs"), [A.OpAssign("+", V("xs"), A.lst(I(7))), P(V("v"))]), P(V("xs"))]
    cases["list_rebind_shrink"] = [A.Declare(V("xs"), A.lst(I(1), I(2), I(3))),
                                   A.For(A.lst(V("i"), V("v")), V("xs"), [A.Assign(V("xs"), A.lst()), P(V("v"))]), P(V("xs"))]
    cases["object_insert"] = [A.Declare(V("o"), A.obj(("b", I(2)), ("a", I(1)))),
                              A.For(A.lst(V("k"), V("v")), V("o"), [A.Assign(A.Index(V("o"), A.Bin("+", V("k"), S("z"))), I(0)), A.Assign(A.Prop(V("o"), "b", False), I(50)), P(V("k")), P(V("v"))]), P(V("o"))]
    cases["string_rebind"] = [A.Declare(V("s"), S("ab")),
                              A.For(A.lst(V("i"), V("c")), V("s"), [A.OpAssign("+", V("s"), S("!")), P(V("c"))]), P(V("s"))]
    cases["string_bytes"] = [A.Declare(V("acc"), S("")), A.Declare(V("n"), I(0)),
                             A.For(A.lst(V("i"), V("c")), S("aé✓"), [A.OpAssign("+", V("acc"), V("c")), A.OpAssign("+", V("n"), I(1)), P(V("i"))]),
                             P(V("n")), P(A.Bin("==", V("acc"), S("aé✓"))), P(V("acc"))]
    cases["object_order"] = [A.Declare(V("o"), A.obj(("zz", I(1)), ("a", I(2)), ("M", I(3)), ("", I(4)), ("é", I(5)), ("a1", I(6)))),
                             A.For(V("kv"), V("o"), [P(V("kv"))])]
    cases["for_range_pairs"] = [A.For(A.lst(V("k"), V("v")), A.Range(I(3), I(6)), [P(V("k")), P(V("v"))]),
                                A.Declare(V("rg"), A.Range(I(-2), I(1))), A.For(V("kv"), V("rg"), [P(V("kv"))]),
                                A.For(A.lst(V("k"), V("v")), A.RangeIndex(A.lst(I(7), I(8), I(9)), I(1), None), [P(V("k")), P(V("v"))])]
    cases["pair_is_fresh_list"] = [A.Declare(V("seen"), A.lst()),
                                   A.For(V("kv"), A.lst(S("p"), S("q")), [A.Assign(A.Index(V("kv"), I(0)), S("changed")), A.OpAssign("+", V("seen"), A.lst(V("kv")))]),
                                   P(V("seen"))]
    cases["while_cond_each_iteration"] = prelude() + [A.Declare(V("i"), I(0)),
                                                      A.While(probe("cond", A.Bin("<", V("i"), I(3))), [A.OpAssign("+", V("i"), I(1)), A.If([(A.Bin("==", V("i"), I(2)), [A.Continue()])], None), P(V("i"))]),
                                                      P(V("i"))]
    cases["fall_off_end_is_null"] = [A.FuncStmt("f", [], False, [P(S("x"))]), P(A.call("f")),
                                     A.FuncStmt("g", [V("c")], False, [A.If([(V("c"), [A.Return(I(1))])], None)]), P(A.call("g", A.Bool(True))), P(A.call("g", A.Bool(False)))]
    cases["break_inner_only"] = [A.For(V("a"), A.lst(I(1), I(2)), [A.For(V("b"), A.lst(I(1), I(2), I(3)), [A.If([(A.Bin("==", A.Index(V("b"), I(1)), I(2)), [A.Break()])], None), P(V("b"))]), P(V("a"))])]
    cases["continue_inner_only"] = [A.Declare(V("i"), I(0)),
                                    A.While(A.Bin("<", V("i"), I(2)), [A.OpAssign("+", V("i"), I(1)), A.For(V("b"), S("xy"), [A.If([(A.Bin("==", A.Index(V("b"), I(0)), I(0)), [A.Continue()])], None), P(V("b"))]), P(V("i"))])]
    cases["return_value_through_loops"] = [A.FuncStmt("f", [], False, [A.While(A.Bool(True), [A.For(V("x"), A.lst(I(1)), [A.Block([A.If([(A.Bool(True), [A.Return(A.lst(S("v"), V("x")))])], None)]), P(S("WRONG"))]), P(S("WRONG"))]), P(S("WRONG"))]), P(A.call("f"))]
    cases["closure_break_in_called_fn"] = [A.FuncStmt("f", [], False, [A.Break()]), A.While(A.Bool(True), [P(S("in loop")), A.ExprStmt(A.call("f")), P(S("WRONG")), A.Break()])]
    W = lambda: [P(S("WRONG"))]
    cases["empty_taken_branch"] = [A.If([(A.Bool(True), [])], W()), P(S("a")),
                                   A.If([(A.Bool(False), W()), (A.Bool(True), [])], W()), P(S("b")),
                                   A.If([(A.Bool(False), [])], [P(S("else ran"))]), P(S("c")),
                                   A.If([(A.Bool(True), [])], None), P(S("d")),
                                   A.For(V("_"), A.lst(I(1), I(2)), [A.If([(A.Bool(True), [])], [A.Break()]), P(S("iter"))]),
                                   A.Declare(V("n"), I(0)), A.While(A.Bin("<", V("n"), I(2)), [A.OpAssign("+", V("n"), I(1)), A.If([(A.Bin("==", V("n"), I(1)), [])], [P(S("second"))])]),
                                   A.FuncStmt("f", [], False, [A.If([(A.Bool(True), [])], [A.Return(S("WRONG"))]), A.Return(S("ok"))]), P(A.call("f"))]
    RN = lambda: A.Return(A.Null())
    cases["return_null_leaves_the_function"] = [
        A.FuncStmt("f", [], False, [A.For(V("x"), A.lst(I(1), I(2)), [P(S("in f")), RN()]), P(S("WRONG")), A.Return(I(1))]), P(A.call("f")),
        A.FuncStmt("g", [], False, [A.While(A.Bool(True), [RN()]), P(S("WRONG")), A.Return(I(1))]), P(A.call("g")),
        A.FuncStmt("h", [], False, [A.For(V("x"), A.lst(I(1)), [A.For(V("y"), S("ab"), [RN()]), P(S("WRONG"))]), P(S("WRONG")), A.Return(I(2))]), P(A.call("h")),
        A.FuncStmt("k", [V("v")], False, [A.While(A.Bool(True), [A.Block([A.If([(A.Bool(True), [A.Return(V("v"))])], None)]), P(S("WRONG"))]), A.Return(S("WRONG"))]),
        P(A.call("k", A.Null())), P(A.call("k", A.Bool(False))), P(A.call("k", I(0))), P(A.call("k", S(""))), P(A.call("k", A.lst())),
        A.For(V("i"), A.lst(I(1), I(2)), [P(A.call("f")), P(S("after call in loop"))])]
    cases["return_null_at_top_level_in_loop"] = [P(S("before")), A.For(V("_"), A.lst(I(1), I(2)), [P(S("body")), RN()]), P(S("after loop"))]
    cases["return_value_at_top_level_in_loop"] = [P(S("before")), A.While(A.Bool(True), [P(S("body")), A.Return(I(0))]), P(S("after loop"))]
    # a function literal called on the spot is a call like any other: a jump cannot leave it
    lit = lambda body, params=(), args=(): A.ExprStmt(A.Call(A.FuncE([V(p) for p in params], False, body), [(a, False) for a in args]))
    cases["break_in_called_literal"] = [A.For(V("i"), A.lst(I(1), I(2)), [P(S("iter")), lit([P(S("in literal")), A.Break()]), P(S("WRONG"))]), P(S("WRONG"))]
    cases["continue_in_called_literal"] = [A.Declare(V("n"), I(0)), A.While(A.Bin("<", V("n"), I(2)), [A.OpAssign("+", V("n"), I(1)), lit([A.If([(A.Bool(True), [A.Continue()])], None)]), P(S("WRONG"))]), P(S("WRONG"))]
    cases["break_in_called_literal_with_args"] = [A.For(V("i"), A.lst(I(1)), [lit([A.Break()], ("a",), (I(1),)), P(S("WRONG"))])]
    cases["return_in_called_literal"] = [A.FuncStmt("f", [], False, [A.For(V("i"), A.lst(I(1), I(2)), [lit([A.Return(I(5))]), P(V("i"))]), A.Return(S("end of f"))]), P(A.call("f")),
                                         A.For(V("_"), A.lst(I(1), I(2)), [P(A.Call(A.FuncE([], False, [A.For(V("_"), A.lst(I(7)), [A.Return(S("from inner loop"))]), A.Return(S("WRONG"))]), []))])]
    cases["return_through_discard_loops"] = [A.FuncStmt("g", [], False, [A.For(V("_"), A.lst(I(1), I(2)), [P(S("g body")), A.Return(S("left g"))]), P(S("WRONG")), A.Return(S("WRONG"))]), P(A.call("g")),
                                             A.FuncStmt("h", [], False, [A.For(A.lst(V("_"), V("_")), S("ab"), [A.For(V("_"), A.obj(("k", I(1))), [A.Return(I(9))]), P(S("WRONG"))]), A.Return(I(0))]), P(A.call("h")),
                                             A.For(V("_"), A.lst(I(1), I(2), I(3)), [A.If([(A.Bool(True), [A.Continue()])], None), P(S("WRONG"))]), A.For(V("_"), A.lst(I(1), I(2)), [P(S("once")), A.Break()])]
    # the loop walks a snapshot also when the body changes the list only indirectly (through a call, a method, an alias)
    cases["list_changed_through_call"] = [A.FuncStmt("bump", [V("ys"), V("k")], False, [A.If([(A.Bin("<", V("k"), I(3)), [A.Assign(A.Index(V("ys"), V("k")), I(99))])], None)]),
                                          A.Declare(V("xs"), A.lst(I(1), I(2), I(3))), A.For(A.lst(V("i"), V("v")), V("xs"), [A.ExprStmt(A.call("bump", V("xs"), A.Bin("+", V("i"), I(1)))), P(V("v"))]), P(V("xs")),
                                          A.Declare(V("al"), V("xs")), A.Declare(V("box"), A.obj(("l", V("xs")), ("set", A.FuncE([V("k")], False, [A.Assign(A.Index(A.Prop(V("this"), "l", False), V("k")), I(-1))])))),
                                          A.For(A.lst(V("i"), V("v")), V("xs"), [A.ExprStmt(A.Call(A.Prop(V("box"), "set", False), [(I(2), False)])), P(V("v"))]), P(V("al")),
                                          A.Declare(V("ob"), A.obj(("a", I(1)), ("b", I(2)))), A.FuncStmt("grow", [V("t")], False, [A.Assign(A.Index(V("t"), S("zz")), I(0)), A.Assign(A.Prop(V("t"), "b", False), I(50))]),
                                          A.For(A.lst(V("k"), V("v")), V("ob"), [A.ExprStmt(A.call("grow", V("ob"))), P(V("k")), P(V("v"))]), P(V("ob"))]
    # what follows a loop whose body always returns still runs when the loop does not iterate
    cases["fallback_after_returning_loop"] = [A.FuncStmt("first", [V("xs")], False, [A.For(V("x"), V("xs"), [A.Return(A.Index(V("x"), I(1)))]), P(S("fallback")), A.Return(S("none"))]),
                                              P(A.call("first", A.lst(I(7), I(8)))), P(A.call("first", A.lst())), P(A.call("first", S(""))), P(A.call("first", A.obj())),
                                              A.FuncStmt("wait", [V("go")], False, [A.While(V("go"), [A.Return(S("ran"))]), A.Return(S("skipped"))]), P(A.call("wait", A.Bool(True))), P(A.call("wait", A.Bool(False))),
                                              A.FuncStmt("cond", [V("c")], False, [A.If([(V("c"), [A.Return(S("then"))])], None), P(S("after if")), A.Return(S("fell through"))]), P(A.call("cond", A.Bool(True))), P(A.call("cond", A.Bool(False))),
                                              A.FuncStmt("both", [V("c")], False, [A.If([(V("c"), [A.Return(S("then"))])], [A.Return(S("else"))]), P(S("WRONG")), A.Return(S("WRONG"))]), P(A.call("both", A.Bool(False))),
                                              A.FuncStmt("blk", [], False, [A.Block([A.For(V("_"), A.lst(), [A.Return(I(1))])]), A.Return(I(2))]), P(A.call("blk"))]
    # an object written in place is an object like any other: later entries replace earlier ones, keys come in ascending order
    cases["for_over_literal_object"] = [A.For(A.lst(V("k"), V("v")), A.obj(("b", I(1)), ("a", I(2)), ("b", I(3)), ("", I(4)), ("B", I(5))), [P(V("k")), P(V("v"))]),
                                        A.For(V("kv"), A.ObjectE([A.Pair(S("z"), I(1)), A.Single(A.obj(("y", I(2)), ("z", I(0))), True, False), A.Pair(S("x"), I(3))]), [P(V("kv"))]),
                                        A.For(A.lst(V("i"), V("v")), A.lst(I(3), I(1), I(2)), [P(A.lst(V("i"), V("v")))]), A.For(A.lst(V("i"), V("c")), S("bca"), [P(A.Bin("+", V("c"), S("")))]),
                                        A.For(A.lst(V("k"), V("_")), A.ObjectE([A.Pair(A.Bin("+", S("k"), S("2")), I(1)), A.Pair(S("k1"), I(2))]), [P(V("k"))])]
    cases["empty_bodies"] = [A.For(V("_"), A.lst(I(1), I(2)), []), P(S("a")), A.Declare(V("n"), I(0)), A.While(A.Bin("<", V("n"), I(0)), []), P(S("b")),
                             A.FuncStmt("e", [], False, []), P(A.call("e")), A.Block([A.Block([P(S("c"))])]), A.For(V("_"), A.lst(), W()), A.For(V("_"), S(""), W()), A.For(V("_"), A.obj(), W()),
                             A.For(V("_"), A.Range(I(2), I(2)), W()), P(S("d"))]
    return cases


SNAP = snapshot_cases()


def build_case(desc):
    if desc[0] == "nest":
        _, spec, w = desc
        prog = prelude() + wrap(level(list(spec), 0), w)
        return {"prog": prog, "tags": ["depth:%d" % len(spec), "wrap:" + w] + ["%s+%s" % (c, j) for c, j, g in spec],
                "trace": True, "keep_trace": True, "check_diag": True, "meta": {"spec": spec, "wrap": w}}
    if desc[0] == "progen":
        from .. import progen as G
        prog, g = G.generate(desc[1], p_fail=0.2)
        return {"prog": prog, "tags": ["random-program"], "trace": True, "keep_trace": True}
    if desc[0] == "snap":
        return {"prog": snapshot_cases()[desc[1]], "tags": ["snapshot:" + desc[1]], "trace": True, "keep_trace": True}
    raise ValueError(desc)


def run(rep, tier):
    from .. import scale
    scale.run(rep, PROP, tier)          # size ladders (seedverif/scale.py): the entries that concern this property
    rng = core.rng_for(PROP)
    descs = []
    cells = [(c, j, g) for c in CONSTRUCTS for j in JUMPS for g in GUARDS
             if not (g == "second" and (j == "none" or c not in ("while", "for_list", "for_string", "for_object")))]
    for cell in cells:
        for w in WRAPS:
            descs.append(("nest", (cell,), w))
    pairs = [(a, b) for a in cells for b in cells]
    if tier == "quick":
        rng.shuffle(pairs)
        pairs = pairs[:2200]
    for a, b in pairs:
        descs.append(("nest", (a, b), rng.choice(WRAPS)))
    ndeep = 300 if tier == "quick" else 60000
    for _ in range(ndeep):
        d = rng.choice([3, 3, 4])
        descs.append(("nest", tuple(rng.choice(cells) for _ in range(d)), rng.choice(WRAPS)))
    for name in SNAP:
        descs.append(("snap", name))
    for _ in range(1500 if tier == "quick" else 40000):
        descs.append(("progen", rng.randrange(1 << 40)))
    signals = {}
    auto = {"logs": 0, "frames": 0}

    def on_result(res):
        tr = res.get("trace")
        if tr is None:
            return
        viol, stats = escape.check(tr)
        auto["logs"] += 1
        auto["frames"] += stats["frames"]
        for k, v in stats["signals"].items():
            signals[k] = signals.get(k, 0) + v
        for rule, what in viol[:3]:
            from .. import printer as P
            case = build_case(res["desc"])
            if case.get("skip"):
                continue
            rep.violation("C07/automaton/" + rule, "event log breaks the escape-propagation automaton: " + what,
                          {"src": P.render(case["prog"]).text, "oracle": "escape automaton over the statement event log", "desc": repr(res["desc"]),
                           "trace_tail": tr[-1500:]})

    harness.run_cases(rep, "seedverif.checks.c07", descs, {"oracle": "model differential"}, on_result=on_result)
    rep.exhaustive = True
    rep.cov["automaton_logs_checked"] = auto["logs"]
    rep.cov["automaton_frames_checked"] = auto["frames"]
    rep.cov["distinct_signal_paths_seen_by_hook"] = len(signals)
    rep.extra["signal_paths_sample"] = dict(sorted(signals.items(), key=lambda kv: -kv[1])[:25])
    rep.rule = ("nestings of {bare block, if/else/else-if branches, while, for over list/string/object, named call, method call} with one of {nothing, break, continue, return} after the child at every level "
                "(unconditional or on the 2nd iteration), at top level / inside a function / inside a loop in a function: depth 1 exhaustive, depth 2 exhaustive in thorough (sampled in quick), depth 3-4 sampled; "
                "conditions are printing probe calls; plus loop-snapshot and pair-binding cases. Judged by the model (stdout, exit class, diagnostic shape) and by the escape automaton over the hook's statement event log. "
                "distinct by SHA-1; non-trivial = at least one jump or loop (all but a handful)")
    rep.sample({"spec": "[(block, return)] in fn", "source": "fn rootf() { ...; { print(\"in L0\"); return \"ret0\"; print(\"after jump L0\") }; print(\"after L0\") ... }", "expected": "prints stop at the return; rootf() yields ret0"})
    rep.sample({"spec": "[(while, none), (else_taken, continue/second)]", "expected": "iteration 2 skips its tail, loop runs 3 times, cond probe printed 4 times"})
    rep.sample({"snapshot": "list_rebind_grow", "source": "xs := [1, 2]; for [i, v] in xs { xs += [7]; print(v) }", "expected": "1, 2 then [1,2,7,7]"})
    rep.require("event logs checked by the automaton", auto["logs"], 1500)
    rep.require("distinct (signal, crossed constructs) paths observed", len(signals), 60)
