"""C12 - objects behave as string-keyed maps with deterministic key order."""

import itertools
import random

from .. import batch, core, sast as A

PROP = "C12"
V, I, S = A.Var, A.Int, A.Str
KEYS = ["a", "b", "A", "", "x y", "é", "a1", "k0", 'q"t', "b\\s"]
IDENT = {"a", "b", "A", "a1", "k0"}


def korder(k):
    return k.encode("utf-8")


def render_obj(d, indent=""):
    out = ["{"]
    for k in sorted(d, key=korder):
        v = d[k]
        out.append('    "%s": %s,' % (k, v))
    out.append("}")
    return out


def access(o, k, path):
    if path == "dot" and k in IDENT:
        return A.Prop(V(o), k, False)
    return A.Index(V(o), S(k))


def hist_alphabet(keys):
    al = []
    for k in keys:
        for path in (("dot", "idx") if k in IDENT else ("idx",)):
            al.append(("ins", k, path))
            al.append(("opa", k, path))
            al.append(("read", k, path))
        al.append(("spread", k, "lit"))
    al.append(("iter", "", ""))
    return al


def make_probe(desc, kk):
    o = "o%d" % kk
    if desc[0] == "hist":
        ops = desc[1]
        d = {}
        stmts = [A.Declare(V(o), A.obj())]
        lines = []
        val = 10
        failed = False
        for op, k, path in ops:
            val += 1
            if op == "ins":
                stmts.append(A.Assign(access(o, k, path), I(val)))
                d[k] = val
            elif op == "opa":
                stmts.append(A.OpAssign("-", access(o, k, path), I(100)))
                if k not in d:
                    failed = True
                    break
                d[k] -= 100
            elif op == "read":
                stmts.append(A.pr(access(o, k, path)))
                if k not in d:
                    failed = True
                    break
                lines.append(str(d[k]))
            elif op == "spread":
                stmts.append(A.Assign(V(o), A.ObjectE([A.Pair(S(k), I(val)), A.Single(V(o), True, False), A.Pair(S("zz"), I(val))])))
                nd = {k: val}
                nd.update(d)
                nd["zz"] = val
                d = nd
            elif op == "iter":
                stmts.append(A.For(A.lst(V("ik"), V("iv")), V(o), [A.pr(A.Bin("+", A.Bin("+", S("<"), V("ik")), S(">"))), A.pr(V("iv"))]))
                for k2 in sorted(d, key=korder):
                    lines += ["<%s>" % k2, str(d[k2])]
            stmts.append(A.pr(V(o)))
            lines += render_obj(d)
        what = "history " + " ; ".join("%s %r %s" % x for x in ops)
        if failed:
            return {"stmts": stmts, "expect": None, "prefix": lines, "tag": "history_fails", "what": what}
        return {"stmts": stmts, "expect": lines, "tag": "history_ok", "what": what}
    if desc[0] == "perm":
        _, keys, perm, path = desc
        ref = {k: i for i, k in enumerate(keys)}
        stmts = [A.Declare(V(o), A.obj())]
        for k in perm:
            stmts.append(A.Assign(access(o, k, path), I(ref[k])))
        lit = A.obj(*[(k, I(ref[k])) for k in keys])
        # an object that differs only in the NAME of one property (same values in key order) is a different object
        other = dict(ref)
        kmax = sorted(ref, key=korder)[-1]
        other[kmax + "z"] = other.pop(kmax)
        lit2 = A.obj(*[(k, I(v)) for k, v in other.items()])
        stmts += [A.pr(A.Bin("==", V(o), lit2)), A.pr(A.Bin("!=", A.clone(lit2), V(o)))]
        stmts += [A.pr(V(o)), A.pr(A.Bin("==", V(o), lit)),
                  A.For(A.lst(V("ik"), V("iv")), V(o), [A.pr(A.Bin("+", A.Bin("+", S("<"), V("ik")), S(">")))])]
        lines = ["false", "true"] + render_obj(ref) + ["true"] + ["<%s>" % k for k in sorted(ref, key=korder)]
        # destructuring with collect must give the remaining keys in order too
        first = sorted(ref, key=korder)[0]
        stmts += [A.Declare(A.ObjectE([A.Pair(S(first), V("f%d" % kk)), A.Single(V("r%d" % kk), False, True)]), V(o)), A.pr(V("r%d" % kk))]
        rest = dict(ref)
        del rest[first]
        lines += render_obj(rest)
        return {"stmts": stmts, "expect": lines, "tag": "insertion_order_%d" % len(keys), "what": "insertion order %r" % (perm,)}
    if desc[0] == "literal":
        idx = desc[1]
        t = lambda n: A.call("t", I(n))
        tn = lambda s: A.call("tn", S(s))
        pre = [A.FuncStmt("t", [V("n")], False, [A.pr(A.Bin("+", S("value "), A.Call(A.Prop(V("n"), "type", True), []))), A.pr(V("n")), A.Return(V("n"))]),
               A.FuncStmt("tn", [V("s")], False, [A.pr(A.Bin("+", S("name "), V("s"))), A.Return(V("s"))])] if kk == kk else []
        # functions are declared once per probe with unique names
        fT, fN = "t%d" % kk, "tn%d" % kk
        pre = [A.FuncStmt(fT, [V("n")], False, [A.pr(V("n")), A.Return(V("n"))]),
               A.FuncStmt(fN, [V("s")], False, [A.pr(A.Bin("+", S("name "), V("s"))), A.Return(V("s"))])]
        t = lambda n: A.call(fT, I(n))
        tn = lambda s: A.call(fN, S(s))
        a, c = "a", "c"
        if idx == 0:
            stmts = pre + [A.pr(A.ObjectE([A.Pair(tn("b"), t(1)), A.Pair(tn("a"), t(2)), A.Pair(tn("b"), t(3))]))]
            lines = ["name b", "1", "name a", "2", "name b", "3"] + render_obj({"a": 2, "b": 3})
        elif idx == 1:
            stmts = pre + [A.Declare(V(a + str(kk)), I(7)), A.Declare(V("sp%d" % kk), A.obj(("m", I(1)), ("a" + str(kk), I(0)))),
                           A.pr(A.ObjectE([A.Single(V(a + str(kk)), False, False), A.Single(V("sp%d" % kk), True, False), A.Pair(S("z"), t(5))]))]
            lines = ["5"] + render_obj({"a" + str(kk): 0, "m": 1, "z": 5})
        elif idx == 2:
            stmts = pre + [A.Declare(V("sp%d" % kk), A.obj(("m", I(1)), ("k", I(0)))),
                           A.pr(A.ObjectE([A.Pair(S("k"), t(9)), A.Single(V("sp%d" % kk), True, False)])),
                           A.pr(A.ObjectE([A.Single(V("sp%d" % kk), True, False), A.Pair(S("k"), t(9))])),
                           A.pr(V("sp%d" % kk))]
            lines = ["9"] + render_obj({"k": 0, "m": 1}) + ["9"] + render_obj({"k": 9, "m": 1}) + render_obj({"k": 0, "m": 1})
        elif idx == 3:
            nm = "nm%d" % kk
            stmts = pre + [A.Declare(V(nm), S("dyn")), A.Declare(V("ns%d" % kk), A.lst(S("q"))),
                           A.pr(A.ObjectE([A.Pair(V(nm), I(1)), A.Pair(A.Index(V("ns%d" % kk), I(0)), I(2)), A.Pair(A.Bin("+", V(nm), S("!")), I(3))]))]
            lines = render_obj({"dyn": 1, "q": 2, "dyn!": 3})
        elif idx == 4:
            stmts = pre + [A.Declare(V("e%d" % kk), A.obj()), A.pr(A.ObjectE([A.Single(V("e%d" % kk), True, False), A.Single(A.obj(("x", I(1))), True, False), A.Single(A.obj(("x", I(2)), ("", I(3))), True, False)]))]
            lines = render_obj({"x": 2, "": 3})
        elif idx == 7:
            # entries are evaluated one after the other, shorthand entries included
            av, bump = "av%d" % kk, "bump%d" % kk
            stmts = pre + [A.Declare(V(av), I(1)), A.FuncStmt(bump, [V("to")], False, [A.Assign(V(av), V("to")), A.Return(I(0))]),
                           A.pr(A.ObjectE([A.Pair(S("x"), A.call(bump, I(2))), A.Single(V(av), False, False)])),
                           A.pr(A.ObjectE([A.Single(V(av), False, False), A.Pair(S("x"), A.call(bump, I(3)))])), A.pr(V(av)),
                           A.pr(A.ObjectE([A.Pair(S("x"), A.call(bump, I(4))), A.Pair(S(av), V(av)), A.Pair(S("y"), A.call(bump, I(5))), A.Single(V(av), False, False)]))]
            lines = render_obj({av: 2, "x": 0}) + render_obj({av: 2, "x": 0}) + ["3"] + render_obj({av: 5, "x": 0, "y": 0})
        elif idx == 8:
            # the object is read after its key expression ran: a key expression that changes the object is seen
            ov, kf, kg = "ko%d" % kk, "kf%d" % kk, "kg%d" % kk
            stmts = pre + [A.Declare(V(ov), A.obj(("a", I(1)))), A.FuncStmt(kf, [], False, [A.Assign(A.Prop(V(ov), "a", False), I(2)), A.Return(S("a"))]),
                           A.FuncStmt(kg, [], False, [A.Assign(A.Index(V(ov), S("late")), I(9)), A.Return(S("late"))]),
                           A.pr(A.Index(V(ov), A.call(kf))), A.pr(A.Index(V(ov), A.call(kg))), A.pr(V(ov)),
                           A.Assign(A.Index(V(ov), A.call(kf)), I(7)), A.pr(A.Prop(V(ov), "a", False))]
            lines = ["2", "9"] + render_obj({"a": 2, "late": 9}) + ["7"]
        elif idx == 9:
            # a spread copies the properties the object has at that moment
            ov, gr = "so%d" % kk, "gr%d" % kk
            stmts = pre + [A.Declare(V(ov), A.obj(("a", I(1)))), A.FuncStmt(gr, [], False, [A.Assign(A.Index(V(ov), S("b")), I(2)), A.Assign(A.Prop(V(ov), "a", False), I(10)), A.Return(I(0))]),
                           A.pr(A.ObjectE([A.Single(V(ov), True, False), A.Pair(S("z"), A.call(gr))])), A.pr(V(ov)),
                           A.pr(A.ObjectE([A.Pair(S("z"), A.call(gr)), A.Single(V(ov), True, False)]))]
            lines = render_obj({"a": 1, "z": 0}) + render_obj({"a": 10, "b": 2}) + render_obj({"a": 10, "b": 2, "z": 0})
        elif idx == 6:
            stmts = pre + [A.Declare(V("src%d" % kk), A.obj(("k", I(1)))), A.Declare(V("cp%d" % kk), A.ObjectE([A.Single(V("src%d" % kk), True, False)])),
                           A.Assign(A.Prop(V("cp%d" % kk), "k", False), I(2)), A.Assign(A.Index(V("cp%d" % kk), S("n")), I(3)),
                           A.pr(V("src%d" % kk)), A.pr(V("cp%d" % kk)), A.pr(A.Bin("===", V("src%d" % kk), V("cp%d" % kk)))]
            lines = render_obj({"k": 1}) + render_obj({"k": 2, "n": 3}) + ["false"]
        else:
            stmts = pre + [A.Declare(V("w%d" % kk), A.obj(("p", I(1)))), A.Assign(A.Prop(V("w%d" % kk), "p", False), t(4)), A.OpAssign("*", A.Index(V("w%d" % kk), S("p")), t(5)),
                           A.pr(A.Bin("==", A.Prop(V("w%d" % kk), "p", False), A.Index(V("w%d" % kk), S("p")))), A.pr(V("w%d" % kk))]
            lines = ["4", "5", "true"] + render_obj({"p": 20})
        if idx == 6:
            pass
        return {"stmts": stmts, "expect": lines, "tag": "literal_forms", "what": "literal form %d" % idx}
    if desc[0] == "listprop":
        path1, path2 = desc[1], desc[2]
        l = "lp%d" % kk
        stmts = [A.Declare(V(l), A.lst(I(1), I(2))), A.Declare(V(o), A.obj(("a", V(l)), ("b", V(l)))),
                 A.OpAssign("+", access(o, "a", path1), A.lst(I(3))), A.pr(V(o)), A.pr(V(l)),
                 A.pr(A.Bin("==", access(o, "a", path2), A.Bin("+", V(l), A.lst(I(3))))),
                 A.pr(A.Bin("===", access(o, "b", path2), V(l))), A.pr(A.Bin("===", access(o, "a", path1), V(l)))]
        lines = ["{", '    "a": [', "        1,", "        2,", "        3,", "    ],", '    "b": [', "        1,", "        2,", "    ],", "}",
                 "[", "    1,", "    2,", "]", "true", "true", "false"]
        return {"stmts": stmts, "expect": lines, "tag": "list_property_opassign", "what": "o.a += [3] where o.a and o.b hold the same list (%s/%s)" % (path1, path2)}
    if desc[0] == "dup":
        kinds = desc[1]
        kn = "dk%d" % kk
        stmts = [A.Declare(V(kn), I(99))]
        props = []
        final = None
        for i, kd in enumerate(kinds):
            v = 10 + i
            if kd == "pair":
                props.append(A.Pair(S(kn), I(v)))
                final = v
            elif kd == "computed":
                props.append(A.Pair(A.Bin("+", S("d"), S(kn[1:])), I(v)))
                final = v
            elif kd == "shorthand":
                props.append(A.Single(V(kn), False, False))
                final = 99
            else:
                props.append(A.Single(A.obj((kn, I(v)), ("other", I(i))), True, False))
                final = v
        stmts.append(A.pr(A.Index(A.ObjectE(props), S(kn))))
        return {"stmts": stmts, "expect": [str(final)], "tag": "later_entry_wins", "what": "literal entries %s for one key" % (kinds,)}
    if desc[0] == "missing":
        _, k, path, how = desc
        stmts = [A.Declare(V(o), A.obj(("a", I(1)), ("é", I(2))))]
        if how == "read":
            stmts.append(A.pr(access(o, k, path)))
        elif how == "opa":
            stmts.append(A.OpAssign("+", access(o, k, path), I(1)))
        else:
            stmts.append(A.Declare(A.ObjectE([A.Pair(S(k), V("g%d" % kk))]), V(o)))
        return {"stmts": stmts, "expect": None, "tag": "missing_" + how, "what": "%s of missing %r via %s" % (how, k, path), "atoms": [k] if k else []}
    raise ValueError(desc)


def run(rep, tier):
    from .. import scale
    scale.run(rep, PROP, tier)          # size ladders (seedverif/scale.py): the entries that concern this property
    rng = core.rng_for(PROP)
    descs = []
    keys4 = ["a", "b", "é", ""]
    al = hist_alphabet(keys4)
    nmax = 3 if tier == "quick" else 4
    for n in range(1, nmax + 1):
        for ops in itertools.product(al, repeat=n):
            descs.append(("hist", ops))
    big = hist_alphabet(KEYS)
    for _ in range(4000 if tier == "quick" else 150000):
        n = rng.choice([3, 4, 5, 6])
        descs.append(("hist", tuple(rng.choice(big if rng.random() < 0.5 else al) for _ in range(n))))
    for n in range(1, 6):
        subsets = list(itertools.combinations(KEYS, n))
        rng.shuffle(subsets)
        for keys in subsets[: (3 if tier == "quick" else 12)]:
            for perm in itertools.permutations(keys):
                descs.append(("perm", keys, perm, rng.choice(["dot", "idx"])))
    for idx in range(10):
        descs.append(("literal", idx))
    for p1 in ("dot", "idx"):
        for p2 in ("dot", "idx"):
            descs.append(("listprop", p1, p2))
    for n in (2, 3):
        for kinds in itertools.product(["pair", "computed", "shorthand", "spread"], repeat=n):
            descs.append(("dup", kinds))
    for k in ["zz", "", "A", "a "]:
        for path in ("dot", "idx"):
            for how in ("read", "opa", "pattern"):
                descs.append(("missing", k, path, how))
    rng.shuffle(descs)
    batch.run(rep, "seedverif.checks.c12", descs, "C12", oracle="Python dict model with ascending-key traversal")
    rep.exhaustive = True
    rep.rule = ("all histories of insert / op-assign / read / spread-rebind / iterate over keys {a, b, é, ''} through `.k` and `[\"k\"]` up to length %d (exhaustive), random histories up to length 6 over 8 keys "
                "(identifier and non-identifier, empty, case variants, multi-byte), every insertion order of key sets up to 5 keys, literal forms with printing probe entries; after every step the whole object is printed. "
                "distinct probes by description; non-trivial = all") % nmax
    rep.sample({"history": "ins 'b' dot ; ins 'a' idx ; opa 'b' idx ; iter", "expected": "prints a before b, b holds +100"})
    rep.sample({"perm": "insert é, '', a1, A in all 24 orders", "expected": "print/for/== identical: '', A, a1, é"})
    rep.sample({"literal": '{tn("b"): t(1), tn("a"): t(2), tn("b"): t(3)}', "expected": "name b,1,name a,2,name b,3 then {a:2,b:3}"})
    rep.require("probes observed", rep.probe_observations, 3000)
