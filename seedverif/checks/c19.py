"""C19 - runs are deterministic and printing is a canonical function of the value."""

import itertools
import os
import random
import re
import shutil
import subprocess
import tempfile

from .. import core, judge, model as M, printer as P, progen as G, failgen as F, sast as A
from .c13 import render as canon_render

PROP = "C19"
V, I, S = A.Var, A.Int, A.Str
KEYS8 = ["zeta", "a", "M", "", "é", "a1", "k0", "x y", "b", "B"]


def hashy_program(seed):
    """Programs whose evaluation touches hash-based containers: object patterns with ..rest,
    many names per scope, duplicate-name detection, failing lookups after a rest collect."""
    r = random.Random(seed)
    keys = r.sample(KEYS8, r.randrange(5, 9))
    big = A.obj(*[(k, I(i)) for i, k in enumerate(keys)])
    out = [A.Declare(V("big"), big), A.pr(V("big"))]
    take = r.sample(keys, r.randrange(0, 3))
    props = [A.Pair(S(k), V("t%d" % i)) for i, k in enumerate(take)] + [A.Single(V("rest"), False, True)]
    out += [A.Declare(A.ObjectE(props), V("big")), A.pr(V("rest")),
            A.For(A.lst(V("k"), V("v")), V("rest"), [A.pr(A.IStr([V("k"), "=", A.Call(A.Prop(V("v"), "type", True), [])]))]),
            A.pr(A.Bin("==", V("rest"), A.ObjectE([A.Single(V("rest"), True, False)])))]
    # many declarations in one scope, then reads in a different order
    names = ["n%d" % i for i in range(r.randrange(5, 12))]
    for i, n in enumerate(names):
        out.append(A.Declare(V(n), I(i * 7)))
    r.shuffle(names)
    out.append(A.pr(A.lst(*[V(n) for n in names])))
    # function values: their rendering is not specified, but it must be the same on every run
    out += [A.FuncStmt("named", [V("p")], False, [A.Return(V("p"))]), A.pr(V("named")), A.pr(A.FuncE([], False, [])), A.pr(V("print")),
            A.pr(A.lst(A.FuncE([V("q")], False, []), A.Prop(S("s"), "len", True))), A.pr(A.obj(("f", V("named"))))]
    kind = r.randrange(5)
    if kind == 4:
        # an undefined name equally close to many declared ones (anything derived from the scope table must not depend on hash order)
        for suffix in "abcdefgh":
            out.append(A.Declare(V("total_" + suffix), I(1)))
        out.append(A.pr(V("total_" + r.choice("xyz"))))
    elif kind == 0:
        out.append(A.Declare(A.ObjectE([A.Pair(S(k), V("u")) for k in keys[:3]]), V("big")))       # duplicate name in one pattern
    elif kind == 1:
        out.append(A.Declare(A.ObjectE([A.Pair(S("nope1"), V("p1")), A.Pair(S("nope2"), V("p2"))]), V("rest")))   # two missing keys: which is reported?
    elif kind == 2:
        out.append(A.FuncStmt("dup", [V("a"), V("b"), V("a"), V("b")], False, []))
    else:
        out.append(A.pr(A.Bin("==", V("big"), A.obj(*[(k, S("x")) for k in keys]))))    # several mismatching pairs: which one is named?
    return out


def program_text(kind, seed):
    if kind == "builtin":
        # built-in functions stored in containers and called there: whatever they answer, they answer it every time
        from .. import rawfiles
        progs = [data.decode("utf-8") for name, data, k in rawfiles.cases() if name == "builtin_in_container"]
        return progs[seed % len(progs)]
    if kind == "frontend":
        from . import c17
        return c17.FRONT_END_ERRORS[seed % len(c17.FRONT_END_ERRORS)]
    if kind == "hashy":
        prog = hashy_program(seed)
    elif kind == "fail":
        prog = F.generate(seed)[0]
    else:
        prog = G.generate(seed, size=random.Random(seed).choice([6, 12, 25]))[0]
    r = P.render(prog)
    try:
        M.run(prog, r, fuel=8000)
    except M.ModelLimit:
        return None
    return r.text


CONFIGS = ["base", "cwd_parent", "dot_slash", "absolute", "dotdot", "symlink", "cwd_root", "env_polluted", "env_locale", "env_backtrace", "env_terminal",
           "stdin_closed", "stdin_pipe", "stdout_file", "repeat1", "repeat2", "repeat3"]


def run_config(binary, d, cfg, rng):
    """d: directory containing sub/x.sd.  Returns (exit, stdout, stderr with the echoed path normalised)."""
    sub = os.path.join(d, "sub")
    cwd, path = sub, "x.sd"
    env = {}
    stdin = subprocess.DEVNULL
    if cfg == "cwd_parent":
        cwd, path = d, "sub/x.sd"
    elif cfg == "dot_slash":
        path = "./x.sd"
    elif cfg == "absolute":
        path = os.path.join(sub, "x.sd")
    elif cfg == "dotdot":
        cwd, path = d, "sub/../sub/x.sd"
    elif cfg == "symlink":
        path = "link.sd"
    elif cfg == "cwd_root":
        cwd, path = "/", os.path.join(sub, "x.sd")
    elif cfg == "env_polluted":
        env = {"LANG": "de_DE.UTF-8", "LC_ALL": "C", "TZ": "Pacific/Kiritimati", "HOME": "/nonexistent", "TERM": "dumb", "NO_COLOR": "1",
               "RUST_LOG": "trace", "COLUMNS": "7", "LINES": "3", "SEED_PATH": "/x", "SEED_DEBUG": "1", "DEBUG": "1", "CLICOLOR_FORCE": "1"}
        for i in range(50):
            env["V%d_%d" % (i, rng.randrange(1000))] = str(rng.random())
    elif cfg == "env_terminal":
        env = {"COLUMNS": str(rng.choice([20, 40, 80, 132])), "LINES": "24", "TERM": "xterm-256color", "COLORTERM": "truecolor", "FORCE_COLOR": "1", "CLICOLOR": "1", "PAGER": "less", "LESS": "-R", "SHELL": "/bin/sh", "USER": "u", "PWD": "/"}
    elif cfg == "env_locale":
        env = {"LC_ALL": "tr_TR.UTF-8", "LANG": "tr_TR.UTF-8", "LANGUAGE": "tr"}
    elif cfg == "env_backtrace":
        env = {"RUST_BACKTRACE": "full", "RUST_LIB_BACKTRACE": "1"}
    outf = None
    kw = {}
    if cfg == "stdin_closed":
        kw["preexec_fn"] = lambda: os.close(0)
        stdin = None
    elif cfg == "stdin_pipe":
        stdin = "pipe"
    if cfg == "stdout_file":
        outf = open(os.path.join(d, "out.txt"), "wb")
    try:
        if stdin == "pipe":
            kw["input"] = b"ignored input\n"
        else:
            kw["stdin"] = stdin
        p = subprocess.run([binary, path], cwd=cwd, env=env,
                           stdout=outf if outf else subprocess.PIPE, stderr=subprocess.PIPE, timeout=20, **kw)
    except subprocess.TimeoutExpired:
        return None
    finally:
        if outf:
            outf.close()
    out = open(os.path.join(d, "out.txt"), "rb").read() if outf else p.stdout
    err = p.stderr.decode("utf-8", "replace")
    # the path is echoed as given: normalise it
    err = err.replace(path + ":", "PATH:")
    return (p.returncode, out, err)


def perturb_work(arg):
    kind, seed, binary = arg
    rng = random.Random(seed)
    text = program_text(kind, seed)
    res = {"viol": [], "runs": 0, "configs": {}, "sha": None, "skipped": text is None}
    if text is None:
        return res
    res["sha"] = core.sha(text)[:12]
    if len(text) < 1500:
        res["sample"] = {"program": text, "configurations": CONFIGS, "kind": kind}
    base_dir = "/dev/shm" if os.path.isdir("/dev/shm") else core.WORK
    d = tempfile.mkdtemp(prefix="c19-", dir=base_dir)
    try:
        os.mkdir(os.path.join(d, "sub"))
        with open(os.path.join(d, "sub", "x.sd"), "w") as f:
            f.write(text)
        os.symlink("x.sd", os.path.join(d, "sub", "link.sd"))
        with open(os.path.join(d, "sub", "decoy.sd"), "w") as f:
            f.write("print(\"decoy\")\n")
        ref = None
        for cfg in CONFIGS:
            r = run_config(binary, d, cfg, rng)
            res["runs"] += 1
            if r is None:
                continue
            res["configs"][cfg] = 1
            if r[0] not in (0, 103) or "panicked at" in r[2]:
                res["viol"].append(("crash", "crash under configuration %s" % cfg, text, {"config": cfg, "stderr": r[2][-300:]}))
                break
            if ref is None:
                ref = r
            elif r != ref:
                what = "exit %s vs %s" % (ref[0], r[0]) if r[0] != ref[0] else ("stdout: " + judge.first_diff(ref[1], r[1]) if r[1] != ref[1] else "stderr %r vs %r" % (ref[2][:160], r[2][:160]))
                res["viol"].append(("nondeterministic/" + cfg, "the same script behaves differently under configuration %s: %s" % (cfg, what), text, {"config": cfg}))
                break
    finally:
        shutil.rmtree(d, ignore_errors=True)
    return res


def monitor_work(arg):
    """Process-level monitors on the plain binary: environment queries and file opens."""
    kind, seed = arg
    text = program_text(kind, seed)
    res = {"viol": [], "runs": 0, "getenv": [], "opens": [], "skipped": text is None, "getrandom": 0}
    if text is None:
        return res
    base_dir = "/dev/shm" if os.path.isdir("/dev/shm") else core.WORK
    d = tempfile.mkdtemp(prefix="c19m-", dir=base_dir)
    try:
        with open(os.path.join(d, "x.sd"), "w") as f:
            f.write(text)
        log = os.path.join(d, "genv.log")
        env = {"LD_PRELOAD": os.path.join(core.WORK, "genv.so"), "SEEDVERIF_GENV_LOG": log, "HOME": "/root", "LANG": "C", "SEED_HOME": "/x"}
        p = subprocess.run([core.BIN_PLAIN, "x.sd"], cwd=d, env=env, stdin=subprocess.DEVNULL, stdout=subprocess.PIPE, stderr=subprocess.PIPE, timeout=20)
        res["runs"] += 1
        names = open(log).read().split("\n")[:-1] if os.path.exists(log) else []
        res["getenv"] = names
        panicked = b"panicked at" in p.stderr
        if names and not panicked:
            res["viol"].append(("reads-environment", "the interpreter consulted environment variable(s) %s" % sorted(set(names)), text, {}))
        st = os.path.join(d, "strace.log")
        p2 = subprocess.run(["strace", "-f", "-e", "trace=openat,open,openat2,getrandom,readlink,stat,statx,newfstatat", "-o", st, core.BIN_PLAIN, "x.sd"], cwd=d, env={},
                            stdin=subprocess.DEVNULL, stdout=subprocess.PIPE, stderr=subprocess.PIPE, timeout=30)
        res["runs"] += 1
        if os.path.exists(st):
            for ln in open(st, errors="replace"):
                m = re.search(r'open(?:at|at2)?\((?:AT_FDCWD, )?"([^"]*)"', ln)
                if m:
                    path = m.group(1)
                    res["opens"].append(path)
                    ok = path.startswith(("/etc/ld.so", "/lib/", "/lib64/", "/usr/lib", "/proc/self/", "/sys/")) or path == os.path.join(d, "x.sd") or path == "x.sd"
                    if not ok:
                        res["viol"].append(("reads-other-file", "the interpreter opened %r" % path, text, {}))
                if "getrandom(" in ln:
                    res["getrandom"] += 1
    finally:
        shutil.rmtree(d, ignore_errors=True)
    return res


# ------------------------------------------------------------------ canonical rendering

def corpus(depth, rng, limit):
    atoms = [None, True, False, 0, -7, 12345678901234, "", "a", "two words", "é✓", "tab\there", "x\n", "l1\nl2", "\n", "cr\r\nlf",
             "esc\x1b[0m", "bell\x07", "nul\x00in", "del\x7f", "\x01\x02", "back\\slash", "quo\"te"]      # control characters and quoting characters are written raw
    level = [atoms]
    for d in range(depth):
        prev = [v for lv in level for v in lv]
        new = [[], {}]
        for n in (1, 2, 3):
            for _ in range(limit // 6):
                new.append([rng.choice(prev) for _ in range(n)])
                if n >= 2 and rng.random() < 0.2:
                    c = rng.choice([x for x in prev if isinstance(x, (list, dict))] or [[0]])
                    new.append([c, [c, rng.choice(prev)]] + [rng.choice(prev) for _ in range(n - 2)])
                if n >= 2 and rng.random() < 0.3:
                    c = rng.choice([x for x in prev if isinstance(x, (list, dict))] or [[0]])
                    new.append([c, c] + [rng.choice(prev) for _ in range(n - 2)])
                new.append({k: rng.choice(prev) for k in rng.sample(["b", "a", "", "é", "Z", "k k", 'q"t', "b\\s", "t\tb"], n)})
        level.append(new)
    return [v for lv in level for v in lv]


def build_value(v, rng, name, stmts):
    """Append statements that build value v along a random construction history; returns an expression for it."""
    if not isinstance(v, (list, dict)):
        return A.lit(v)
    how = rng.randrange(6)
    if how == 5 and isinstance(v, list) and len(v) >= 2 and repr(v[0]) == repr(v[1]) and isinstance(v[0], (list, dict)):
        # the same container object placed twice (aliasing must not show in the rendering)
        stmts.append(A.Declare(V(name + "s"), build_value(v[0], rng, name + "s0", stmts)))
        rest = [build_value(x, rng, name + "r%d" % i, stmts) for i, x in enumerate(v[2:])]
        return A.lst(V(name + "s"), V(name + "s"), *rest)
    if how == 5 and isinstance(v, list) and len(v) >= 2 and isinstance(v[0], (list, dict)) and isinstance(v[1], list) and v[1] and repr(v[1][0]) == repr(v[0]):
        # the same container at two different depths
        stmts.append(A.Declare(V(name + "t"), build_value(v[0], rng, name + "t0", stmts)))
        inner = [V(name + "t")] + [build_value(x, rng, name + "u%d" % i, stmts) for i, x in enumerate(v[1][1:])]
        rest = [build_value(x, rng, name + "w%d" % i, stmts) for i, x in enumerate(v[2:])]
        return A.lst(V(name + "t"), A.lst(*inner), *rest)
    if how == 5:
        how = 0
    if isinstance(v, list):
        elems = [build_value(x, rng, name + "e%d" % i, stmts) for i, x in enumerate(v)]
        if how == 0 or not v:
            return A.lst(*elems)
        if how == 1:
            k = rng.randrange(len(v) + 1)
            return A.Bin("+", A.lst(*elems[:k]), A.lst(*elems[k:]))
        if how == 2:
            return A.ListE([(A.lst(*elems), True)], False)
        if how == 3:
            stmts.append(A.Declare(V(name), A.lst(*[A.Null() for _ in v])))
            order = list(range(len(v)))
            rng.shuffle(order)
            for i in order:
                stmts.append(A.Assign(A.Index(V(name), I(i)), elems[i]))
            return V(name)
        stmts.append(A.Declare(V(name), A.lst(*elems)))
        return A.RangeIndex(V(name), None, None)
    items = [(k, build_value(x, rng, name + "p%d" % i, stmts)) for i, (k, x) in enumerate(v.items())]
    if how == 0 or not v:
        return A.obj(*items)
    if how in (1, 3):
        stmts.append(A.Declare(V(name), A.obj()))
        order = list(items)
        rng.shuffle(order)
        for k, e in order:
            stmts.append(A.Assign(A.Index(V(name), S(k)), e))
        return V(name)
    if how == 2:
        k = rng.randrange(len(items) + 1)
        return A.ObjectE([A.Single(A.obj(*items[:k]), True, False)] + [A.Pair(S(kk), e) for kk, e in items[k:]])
    rev = list(reversed(items))
    return A.obj(*rev)


def flat_atoms(v):
    if isinstance(v, list):
        for x in v:
            yield from flat_atoms(x)
    elif isinstance(v, dict):
        for x in v.values():
            yield from flat_atoms(x)
    else:
        yield v


def render_work(arg):
    seed, depth, n = arg
    rng = random.Random(seed)
    vals = corpus(depth, rng, 60)
    rng.shuffle(vals)
    vals = vals[:n]
    prog = []
    expect = []
    for i, v in enumerate(vals):
        st = []
        e1 = build_value(v, rng, "a%d" % i, st)
        e2 = build_value(v, rng, "b%d" % i, st)
        prog += st
        prog += [A.pr(S("#@%d" % i)), A.pr(e1), A.pr(e2), A.pr(A.call("print", A.Int(1))) if i == 0 else A.pr(S("-"))]
        body = canon_render(v)
        expect.append((i, v, body))
    r = P.render(prog)
    o = core.run_one({"src": r.text})
    res = {"viol": [], "n": len(vals), "sha": core.sha(r.text)[:12], "inconclusive": None}
    if o.timeout or o.stack_overflow:
        res["inconclusive"] = "timeout"
        return res
    if o.crashed or o.code != 0:
        res["viol"].append(("render-run", "rendering corpus script failed: exit %s %s" % (o.code, o.err.decode("utf-8", "replace")[-200:]), r.text))
        return res
    chunks = {}
    cur = None
    for ln in o.out.decode("utf-8", "replace").split("\n")[:-1]:
        if ln.startswith("#@"):
            cur = int(ln[2:])
            chunks[cur] = []
        elif cur is not None:
            chunks[cur].append(ln)
    for i, v, body in expect:
        tail = ["1", "<null>"] if i == 0 else ["-"]
        want = body + body + tail
        # inner lines of multi-line strings may be re-indented in any way (unspecified); nothing may be dropped or reordered
        norm = lambda ls: None if ls is None else [l.lstrip(" ") for l in ls]
        if norm(chunks.get(i)) != norm(want) or (not any("\n" in str(x) for x in flat_atoms(v)) and chunks.get(i) != want):
            res["viol"].append(("render", "print of %r is not the canonical rendering (or differs between two construction histories): got %s" % (v, chunks.get(i, [])[:8]), r.text))
            break
    return res


def hash_order_work(arg):
    """Run one `..rest` program many times with the event log on; count distinct hash iteration orders."""
    seed, reps = arg
    keys = KEYS8[:8]
    prog = [A.Declare(V("o"), A.obj(*[(k, I(i)) for i, k in enumerate(keys)])),
            A.Declare(A.ObjectE([A.Pair(S("a"), V("first")), A.Single(V("rest"), False, True)]), V("o")), A.pr(V("rest")),
            A.For(V("kv"), V("rest"), [A.pr(V("kv"))])]
    r = P.render(prog)
    orders = set()
    outs = set()
    for _ in range(reps):
        o = core.run_one({"src": r.text, "trace": True})
        outs.add((o.code, o.out, o.err))
        for ln in (o.trace or "").split("\n"):
            if ln.startswith("K "):
                orders.add(ln)
    return {"orders": len(orders), "outputs": len(outs), "src": r.text}


def run(rep, tier):
    from .. import scale
    scale.run(rep, PROP, tier)          # size ladders (seedverif/scale.py): the entries that concern this property
    rng = core.rng_for(PROP)
    nprog = 900 if tier == "quick" else 12000
    jobs = []
    for i in range(nprog):
        kind = ["hashy", "progen", "fail", "hashy", "builtin"][i % 5] if i % 20 == 4 else (["frontend", "fail"][(i // 10) % 2] if i % 10 == 9 else ["hashy", "progen", "fail", "hashy"][i % 4])
        jobs.append((kind, rng.randrange(1 << 40), core.BIN_PLAIN if i % 3 else core.BIN_VERIF))
    for res in core.pool().imap_unordered(perturb_work, jobs, chunksize=2):
        if res["skipped"]:
            rep.discards += 1
            continue
        rep.evaluations += 1
        rep.process_runs += res["runs"]
        rep.distinct.add(res["sha"])
        if res.get("sample"):
            rep.actual_sample(res["sample"], limit=2)
        for c in res["configs"]:
            rep.tally("configurations", c)
        for sig, what, src, extra in res["viol"]:
            case = {"src": src, "oracle": "repeat-and-perturb"}
            case.update(extra)
            rep.violation("C19/" + sig, what, case)
    nmon = 300 if tier == "quick" else 1500
    getenv_names = {}
    opens = {}
    getrandom_calls = 0
    for res in core.pool().imap_unordered(monitor_work, [(["hashy", "progen", "fail"][i % 3], rng.randrange(1 << 40)) for i in range(nmon)], chunksize=2):
        if res["skipped"]:
            continue
        rep.evaluations += 1
        rep.process_runs += res["runs"]
        getrandom_calls += res["getrandom"]
        for n in res["getenv"]:
            getenv_names[n] = getenv_names.get(n, 0) + 1
        for p in res["opens"]:
            key = "script" if p.endswith("x.sd") else p
            opens[key] = opens.get(key, 0) + 1
        for sig, what, src, extra in res["viol"]:
            rep.violation("C19/" + sig, what, {"src": src, "oracle": "process monitor (getenv interposer / strace)"})
    rep.cov["getenv_names_seen"] = getenv_names
    rep.cov["files_opened"] = opens
    rep.cov["getrandom_calls_seen_by_strace"] = getrandom_calls
    nren = 120 if tier == "quick" else 1500
    for res in core.pool().imap_unordered(render_work, [(rng.randrange(1 << 40), 3 if tier == "quick" else 4, 60) for _ in range(nren)], chunksize=1):
        rep.evaluations += 1
        rep.process_runs += 1
        rep.probe_observations += res["n"] * 2
        rep.distinct.add(res["sha"])
        if res["inconclusive"]:
            rep.note_inconclusive(res["inconclusive"])
        for sig, what, src in res["viol"]:
            rep.violation("C19/" + sig, what, {"src": src, "oracle": "independent canonical renderer"})
    ho = hash_order_work((0, 150 if tier == "quick" else 1500))
    rep.process_runs += 150 if tier == "quick" else 1500
    rep.cov["distinct_hash_iteration_orders_observed_for_one_key_set"] = ho["orders"]
    rep.cov["distinct_outputs_of_that_program"] = ho["outputs"]
    if ho["outputs"] != 1:
        rep.violation("C19/nondeterministic/hash-order", "the same `..rest` program produced %d different outputs over repeated runs" % ho["outputs"], {"src": ho["src"], "oracle": "repetition"})
    rep.rule = ("generated programs (hash-heavy: object patterns with ..rest, many names per scope, clashes and multi-mismatch comparisons whose report could depend on iteration order; random programs; failing programs) "
                "each run under %d configurations (cwd, path spelling incl. symlink and `..`, polluted/locale/backtrace environments, stdin closed/pipe, stdout file, plain repeats); "
                "process monitors (getenv interposer, strace) on the unhooked binary; rendering corpus of nested values to depth 3-4 built along two random construction histories each vs an independent renderer. "
                "distinct by SHA-1; non-trivial = all") % len(CONFIGS)
    rep.sample({"config": "cwd=/, absolute path, 50 random env vars", "expected": "byte-identical stdout/stderr (path normalised)/exit"})
    rep.sample({"render": {"b": [1, {"a": ""}], "": None}, "expected": 'keys ascending: "" then "b"; nested indentation 4 per level'})
    rep.sample({"hash": "`{\"a\": first, ..rest} := o` with 8 keys repeated 150 times", "expected": "many hash orders inside, one output"})
    rep.assumptions = ["panicking runs may consult RUST_BACKTRACE (they are crashes anyway)", "the dynamic loader's own file accesses are not the interpreter's"]
    rep.require("programs under perturbation", rep.cov.get("configurations", {}).get("base", 0), int(0.8 * nprog))
    rep.require("strace saw the process draw randomness", getrandom_calls, 50)
