"""C04 - lexical scoping; closures capture their defining scope by reference.

(a) bounded exhaustive enumeration of scope histories judged by the model;
(b) renaming (model-free at the observation level): consistently renaming one
    declaration group never changes what the program prints."""

import itertools
import random

from .. import core, judge, model as M, printer as P, progen as G, sast as A

PROP = "C04"
V, I, S = A.Var, A.Int, A.Str

TOKENS = ["Dx", "Dy", "Ax", "Ay", "Rx", "Ry", "{", "L{", "Ff{", "Fg{", "}", "Cf", "Cg", "RET", "CRf", "CRg", "Ox"]
# only in the random (longer) histories: early exits out of nested scopes, closures that escape by assignment
EXTRA = ["BRK", "CNT", "RTx", "EK", "CK", "I{"]


def build(seq):
    """Token sequence -> program (None if brackets do not match)."""
    counter = [0]

    def val():
        counter[0] += 1
        return I(counter[0])

    stack = [("top", [], None)]
    if "EK" in seq or "CK" in seq:
        stack[0][1].append(A.Declare(V("keep"), A.Null()))
    for t in seq:
        cur = stack[-1][1]
        if t in ("BRK", "CNT"):
            if not any(k == "loop" for k, _, _ in stack):
                return None
            cur.append(A.Break() if t == "BRK" else A.Continue())
        elif t == "RTx":
            if not any(k == "fn" for k, _, _ in stack):
                return None
            cur.append(A.Return(V("x")))
        elif t == "EK":
            cur.append(A.Assign(V("keep"), A.FuncE([], False, [A.OpAssign("+", V("x"), I(10000)), A.Return(V("x"))])))
        elif t == "CK":
            cur.append(A.pr(A.call("keep")))
        elif t == "I{":
            stack.append(("if", [], None))
        elif t[0] == "D":
            cur.append(A.Declare(V(t[1]), val()))
        elif t[0] == "A":
            cur.append(A.Assign(V(t[1]), val()))
        elif t[0] == "R":
            cur.append(A.pr(V(t[1])))
        elif t[0] == "O":
            cur.append(A.OpAssign("+", V(t[1]), I(1000)))
        elif t == "{":
            stack.append(("block", [], None))
        elif t == "L{":
            stack.append(("loop", [], None))
        elif t in ("Ff{", "Fg{"):
            stack.append(("fn", [], t[1]))
        elif t == "}":
            if len(stack) == 1:
                return None
            kind, body, name = stack.pop()
            cur = stack[-1][1]
            if kind == "block":
                if not body:
                    return None
                cur.append(A.Block(body))
            elif kind == "if":
                cur.append(A.If([(A.Bool(True), body)], None))
            elif kind == "loop":
                cur.append(A.For(V("_"), A.lst(I(1), I(2)), body))
            else:
                cur.append(A.FuncStmt(name, [], False, body))
        elif t in ("Cf", "Cg"):
            cur.append(A.pr(A.call(t[1])))
        elif t == "RET":
            if not any(k == "fn" for k, _, _ in stack):
                return None
            cur.append(A.Return(A.FuncE([], False, [A.Assign(V("x"), A.Bin("+", V("x"), I(100))), A.pr(V("x")), A.Return(V("x"))])))
        elif t in ("CRf", "CRg"):
            h = "h%d" % counter[0]
            counter[0] += 1
            cur.append(A.Declare(V(h), A.call(t[2])))
            cur.append(A.pr(A.call(h)))
            cur.append(A.pr(A.call(h)))
        else:
            raise ValueError(t)
    while len(stack) > 1:
        kind, body, name = stack.pop()
        cur = stack[-1][1]
        if kind == "block":
            if not body:
                return None
            cur.append(A.Block(body))
        elif kind == "if":
            cur.append(A.If([(A.Bool(True), body)], None))
        elif kind == "loop":
            cur.append(A.For(V("_"), A.lst(I(1), I(2)), body))
        else:
            cur.append(A.FuncStmt(name, [], False, body))
    return stack[0][1]


def canonical(seq):
    """Skip sequences that are the x<->y / f<->g mirror of an earlier one."""
    for t in seq:
        if t[-1:] == "y" and t[0] in "DAR":
            return False
        if t[-1:] == "x" and t[0] in "DARO":
            break
    for t in seq:
        if t in ("Fg{", "Cg", "CRg"):
            return False
        if t in ("Ff{", "Cf", "CRf"):
            break
    return True


def expand_shorthand(node):
    for n in A.walk(node):
        if isinstance(n, A.ObjectE):
            for i, p in enumerate(n.props):
                if isinstance(p, A.Single) and not p.spread and not p.collect and isinstance(p.e, A.Var):
                    n.props[i] = A.Pair(A.Str(p.e.name), p.e)
    return node


def all_idents(prog):
    out = set()
    for n in A.walk(prog):
        if isinstance(n, A.Var):
            out.add(n.name)
        elif isinstance(n, A.FuncStmt):
            out.add(n.name)
        elif isinstance(n, A.Prop):
            out.add(n.name)
    return out


def fresh_like(name, used):
    for c in "qzwjQZWJ":
        cand = c * len(name)
        if cand not in used and cand not in A.KEYWORDS:
            return cand
        cand = (c + name[1:]) if len(name) > 1 else c
        if cand not in used and cand not in A.KEYWORDS:
            return cand
    return None


def groups_of(res_set):
    """Union-find over (use position <-> declaration position) pairs -> list of (name, set of positions)."""
    parent = {}

    def find(a):
        while parent.setdefault(a, a) != a:
            parent[a] = parent[parent[a]]
            a = parent[a]
        return a
    names = {}
    for use, decl, name in res_set:
        if decl == (0, 0):
            continue
        ra, rb = find(use), find(decl)
        if ra != rb:
            parent[ra] = rb
        names[use] = name
        names[decl] = name
    comp = {}
    for p in list(parent):
        comp.setdefault(find(p), set()).add(p)
    return [(names[next(iter(ps))], ps) for ps in comp.values()]


def judge_program(prog_fn, what, do_rename, rng):
    """prog_fn() builds a fresh tree each time it is called."""
    out = {"viol": [], "discard": None, "inconclusive": None, "runs": 0, "events": {}, "renamed": 0, "sha": None, "lines": 0}
    # the program as generated (object shorthand included) is judged by the model ...
    prog0 = prog_fn()
    r0 = P.render(prog0)
    out["sha"] = core.sha(r0.text)[:12]
    try:
        res0 = M.run(prog0, r0, fuel=20000)
    except M.ModelLimit as e:
        out["discard"] = str(e)
        return out
    o0 = core.run_one({"src": r0.text})
    out["runs"] += 1
    if o0.timeout:
        out["inconclusive"] = "timeout"
        return out
    mm0 = judge.outcome_mismatch(o0, res0)
    if mm0:
        out["viol"].append(("model/" + ("crash" if o0.died else "behaviour"), "%s: %s" % (what, mm0),
                            {"src": r0.text, "oracle": "model differential (lexical resolution)", "expected": judge.expected_brief(res0), "observed": o0.brief()}))
        return out
    # ... the renaming variants use the shorthand-free spelling (`{a}` -> `{"a": a}`) so property keys stay put
    prog = expand_shorthand(prog_fn())
    r = P.render(prog)
    it = M.Interp(r, fuel=20000)
    it.resolutions = set()
    try:
        res = it.run(prog)
    except M.ModelLimit as e:
        out["discard"] = str(e)
        return out
    out["events"] = res.events
    out["lines"] = res.out.count(b"\n")
    o = core.run_one({"src": r.text})
    out["runs"] += 1
    if o.timeout:
        out["inconclusive"] = "timeout"
        return out
    mm = judge.outcome_mismatch(o, res)
    if mm:
        out["viol"].append(("model/" + ("crash" if o.died else "behaviour"), "%s: %s" % (what, mm),
                            {"src": r.text, "oracle": "model differential (lexical resolution)", "expected": judge.expected_brief(res), "observed": o.brief()}))
        return out
    if not do_rename:
        return out
    groups = groups_of(it.resolutions)
    if not groups:
        return out
    used = all_idents(prog)
    rng.shuffle(groups)
    conflict = None
    if res.error is not None and res.error.kind in ("AlreadyInScope", "AlreadyInBinding", "DupParamName") and res.error.atoms:
        conflict = res.error.atoms[0]      # a clash between two declarations of this name: renaming one of them removes the clash
    for name, positions in groups[:2]:
        if name == conflict:
            continue
        new = fresh_like(name, used)
        if new is None:
            continue
        prog2 = expand_shorthand(prog_fn())
        r2 = P.render(prog2)
        if r2.text != r.text:
            out["inconclusive"] = "generator not reproducible"
            return out
        changed = 0
        for n in A.walk(prog2):
            if isinstance(n, A.Var) and n.name == name and (r2.pos.get(id(n)) or r2.slotpos.get(id(n))) in positions:
                object.__setattr__(n, "name", new)
                changed += 1
            elif isinstance(n, A.FuncStmt) and n.name == name and r2.oppos.get(id(n)) in positions:
                object.__setattr__(n, "name", new)
                changed += 1
        if not changed:
            continue
        r3 = P.render(prog2)
        o3 = core.run_one({"src": r3.text})
        out["runs"] += 1
        out["renamed"] += 1
        if o3.timeout or o3.stack_overflow:
            continue
        same_err = o3.err.decode("utf-8", "replace").replace("'%s'" % new, "'%s'" % name).replace("`%s`" % new, "`%s`" % name) == o.err.decode("utf-8", "replace")
        if o3.crashed or o3.code != o.code or o3.out != o.out or not same_err:
            out["viol"].append(("rename", "renaming the declaration group of %r (%d occurrences) to %r changes the behaviour: exit %s vs %s; %s" % (
                name, changed, new, o.code, o3.code, judge.first_diff(o.out, o3.out)),
                {"src": r3.text, "oracle": "consistent renaming", "original": r.text, "observed": o3.brief()}))
    return out


def named_cases():
    P = A.pr
    loud = lambda: A.FuncE([V("v")], False, [A.ExprStmt(A.call("say", A.Bin("+", S("shadow:"), V("v")))), A.Return(A.Null())])
    return {
        "print_shadowed_by_parameter": [A.Declare(V("say"), V("print")), A.FuncStmt("f", [V("print")], False, [A.ExprStmt(A.call("print", S("a"))), A.Return(V("print"))]),
                                        A.Declare(V("g"), A.call("f", loud())), A.ExprStmt(A.call("g", S("b"))), P(S("plain"))],
        "print_shadowed_in_block": [A.Declare(V("say"), V("print")), A.Block([A.Declare(V("print"), loud()), A.ExprStmt(A.call("print", S("in"))),
                                                                             A.FuncStmt("h", [], False, [A.ExprStmt(A.call("print", S("closure")))]), A.ExprStmt(A.call("h"))]), P(S("out"))],
        "print_captured_then_shadowed": [A.FuncStmt("k", [], False, [P(S("global print"))]), A.Block([A.Declare(V("print"), A.FuncE([V("v")], False, [])), A.ExprStmt(A.call("k"))])],
        "alias_of_print": [A.Declare(V("p2"), V("print")), A.ExprStmt(A.call("p2", S("via alias"))), A.FuncStmt("use", [V("f")], False, [A.ExprStmt(A.call("f", S("via arg")))]), A.ExprStmt(A.call("use", V("print")))],
        "fn_shadows_outer_fn": [A.FuncStmt("d", [], False, [A.Return(S("outer"))]), A.Block([A.FuncStmt("d", [], False, [A.Return(S("inner"))]), P(A.call("d"))]), P(A.call("d")),
                                A.FuncStmt("m", [], False, [A.FuncStmt("d", [], False, [A.Return(S("local"))]), A.Return(A.call("d"))]), P(A.call("m")), P(A.call("d"))],
        "while_iteration_closures": [A.Declare(V("fs"), A.lst()), A.Declare(V("i"), I(0)),
                                     A.While(A.Bin("<", V("i"), I(3)), [A.Declare(V("loc"), A.Bin("*", V("i"), I(10))), A.OpAssign("+", V("i"), I(1)),
                                                                       A.OpAssign("+", V("fs"), A.lst(A.FuncE([], False, [A.OpAssign("+", V("loc"), I(1)), A.Return(V("loc"))])))]),
                                     A.For(A.lst(V("_"), V("f")), V("fs"), [P(A.call("f")), P(A.call("f"))])],
        "middle_scope_shadow": [A.Declare(V("x"), I(1)), A.FuncStmt("top", [V("x")], False, [
                                    A.If([(A.Bool(True), [P(V("x")), A.For(V("_"), A.lst(I(0)), [P(V("x")), A.Block([P(V("x")), A.Assign(V("x"), A.Bin("+", V("x"), I(1)))])])])], None),
                                    A.Return(V("x"))]), P(A.call("top", I(50))), P(V("x")),
                                A.Block([A.Declare(V("x"), I(2)), A.Block([P(V("x")), A.FuncStmt("rd", [], False, [A.Return(V("x"))]), A.Block([P(A.call("rd"))])])])],
        # a body that is nothing but one bare block still has its own scope, and the block one more
        "single_block_body": [A.FuncStmt("f", [V("x")], False, [A.Block([A.Declare(V("x"), A.Bin("+", V("x"), I(1))), P(V("x"))])]), P(A.call("f", I(1))),
                              A.FuncStmt("g", [V("x")], False, [A.Block([A.Declare(V("x"), I(0)), P(V("x"))]), A.Return(V("x"))]), P(A.call("g", I(5))),
                              A.For(V("x"), A.lst(I(7), I(8)), [A.Block([A.Declare(V("x"), S("inner")), P(V("x"))])]),
                              A.For(A.lst(V("i"), V("v")), A.lst(I(7)), [A.Block([A.Declare(V("v"), S("inner")), A.Declare(V("i"), S("idx")), P(A.lst(V("i"), V("v")))]), P(A.lst(V("i"), V("v")))]),
                              A.Declare(V("w"), I(0)), A.While(A.Bin("<", V("w"), I(1)), [A.Block([A.Declare(V("w"), I(50)), P(V("w"))]), A.OpAssign("+", V("w"), I(1))]), P(V("w")),
                              A.If([(A.Bool(True), [A.Block([A.Declare(V("w"), I(60)), P(V("w"))])])], None), P(V("w"))],
        # a function literal called on the spot has a call scope of its own
        "immediately_called_literal": [A.Declare(V("x"), I(1)), A.ExprStmt(A.Call(A.FuncE([], False, [A.Declare(V("x"), I(2)), A.Declare(V("fresh"), I(3)), P(V("x")), P(V("fresh"))]), [])),
                                       A.ExprStmt(A.Call(A.FuncE([], False, [A.Declare(V("x"), I(4)), A.Declare(V("fresh"), I(5)), P(V("x")), P(V("fresh"))]), [])), P(V("x")),
                                       A.Declare(V("r"), A.Call(A.Paren(A.FuncE([], False, [A.Declare(V("x"), I(6)), A.Return(A.FuncE([], False, [A.OpAssign("+", V("x"), I(1)), A.Return(V("x"))]))])), [])),
                                       P(A.call("r")), P(A.call("r")), P(V("x")), A.Declare(V("fresh"), S("outer fresh")), P(V("fresh")),
                                       A.FuncStmt("host", [], False, [A.Declare(V("loc"), I(1)), A.ExprStmt(A.Call(A.FuncE([], False, [A.Declare(V("loc"), I(2)), P(V("loc"))]), [])), A.Return(V("loc"))]), P(A.call("host"))],
        # the condition of a `while` lives outside the body's scope on every test, not only the first
        "while_condition_scope": [A.Declare(V("i"), I(0)), A.While(A.Bin("<", V("i"), I(3)), [A.OpAssign("+", V("i"), I(1)), P(V("i")), A.Declare(V("i"), I(100)), P(V("i"))]), P(V("i")),
                                  A.Declare(V("go"), A.Bool(True)), A.Declare(V("n"), I(0)),
                                  A.While(V("go"), [A.OpAssign("+", V("n"), I(1)), A.If([(A.Bin(">=", V("n"), I(3)), [A.Assign(V("go"), A.Bool(False))])], None), A.Declare(V("go"), S("shadow")), A.Declare(V("n"), S("inner n")), P(V("n"))]), P(V("n")),
                                  A.FuncStmt("cnt", [], False, [A.Declare(V("k"), I(0)), A.While(A.Bin("<", V("k"), I(2)), [A.OpAssign("+", V("k"), I(1)), A.Declare(V("k"), I(50))]), A.Return(V("k"))]), P(A.call("cnt"))],
        # a `fn` statement takes effect where it stands, in a nested block as at top level
        "fn_declared_later_in_block": [A.FuncStmt("d", [], False, [A.Return(S("outer"))]), A.Block([P(A.call("d")), A.FuncStmt("d", [], False, [A.Return(S("inner"))]), P(A.call("d"))]), P(A.call("d")),
                                       A.FuncStmt("host", [], False, [A.Declare(V("r"), A.call("d")), A.FuncStmt("d", [], False, [A.Return(S("local"))]), A.Return(A.lst(V("r"), A.call("d")))]), P(A.call("host")),
                                       A.If([(A.Bool(True), [P(A.call("d")), A.FuncStmt("d", [], False, [A.Return(S("in if"))]), P(A.call("d"))])], None),
                                       A.For(V("_"), A.lst(I(1), I(2)), [P(A.call("d")), A.FuncStmt("d", [], False, [A.Return(S("in loop"))]), P(A.call("d"))])],
        "fn_used_before_declared_in_block": [P(S("before")), A.Block([A.ExprStmt(A.call("later")), A.FuncStmt("later", [], False, [A.Return(I(1))])]), P(S("WRONG"))],
        "fn_used_before_declared_in_function": [A.FuncStmt("host", [], False, [A.Declare(V("r"), A.call("later2")), A.FuncStmt("later2", [], False, [A.Return(I(1))]), A.Return(V("r"))]), P(S("before")), P(A.call("host")), P(S("WRONG"))],
        # a named function declared inside a function or loop body is created anew, with the bindings of that activation, every time
        "nested_fn_per_activation": [A.FuncStmt("mk", [V("s")], False, [A.Declare(V("n"), I(0)), A.FuncStmt("get", [], False, [A.OpAssign("+", V("n"), I(1)), A.Return(A.lst(V("s"), V("n")))]), A.Return(V("get"))]),
                                     A.Declare(V("ga"), A.call("mk", S("a"))), A.Declare(V("gb"), A.call("mk", S("b"))), P(A.call("ga")), P(A.call("gb")), P(A.call("ga")), P(A.Bin("===", V("ga"), V("gb"))),
                                     A.Declare(V("fs"), A.lst()), A.For(A.lst(V("i"), V("v")), A.lst(S("x"), S("y")), [A.FuncStmt("show", [], False, [A.Return(A.lst(V("i"), V("v")))]), A.OpAssign("+", V("fs"), A.lst(V("show")))]),
                                     P(A.Call(A.Index(V("fs"), I(0)), [])), P(A.Call(A.Index(V("fs"), I(1)), [])),
                                     A.FuncStmt("twice", [V("p")], False, [A.FuncStmt("inner", [], False, [A.Return(V("p"))]), A.Return(A.call("inner"))]), P(A.call("twice", I(1))), P(A.call("twice", I(2)))],
        # a function body sees the scope where the function was created, never the scopes of whoever calls it
        "callee_does_not_see_caller_locals": [A.Declare(V("x"), S("global x")), A.FuncStmt("rd", [], False, [A.Return(V("x"))]), A.FuncStmt("wr", [], False, [A.Assign(V("x"), A.Bin("+", V("x"), S("!")))]),
                                              A.Block([A.Declare(V("x"), S("block x")), P(A.call("rd")), A.ExprStmt(A.call("wr")), P(V("x"))]), P(V("x")),
                                              A.FuncStmt("caller", [], False, [A.Declare(V("x"), S("caller x")), A.ExprStmt(A.call("wr")), A.Return(A.lst(A.call("rd"), V("x")))]), P(A.call("caller")),
                                              A.For(V("x"), A.lst(I(1)), [P(A.call("rd")), A.ExprStmt(A.call("wr"))]), P(V("x")),
                                              A.FuncStmt("undefd", [], False, [A.Return(V("only_in_caller"))]), A.Block([A.Declare(V("only_in_caller"), I(1)), P(S("next fails")), P(A.call("undefd"))])],
        "empty_function_scope": [A.Declare(V("x"), I(1)), A.FuncStmt("outer", [], False, [A.FuncStmt("inner", [], False, [A.Declare(V("x"), I(2)), A.Return(V("x"))]), A.Return(A.call("inner"))]),
                                 P(A.call("outer")), P(V("x")), A.Block([A.Block([A.Declare(V("x"), I(3)), P(V("x"))]), P(V("x"))])],
    }


def work(arg):
    kind = arg[0]
    if kind == "named":
        res = judge_program(lambda: named_cases()[arg[1]], "named case " + arg[1], True, random.Random(1))
        res["tag"] = "named"
        return res
    rng = random.Random(arg[1] if kind != "seq" else int(core.sha(repr(arg[1]))[:8], 16))
    if kind == "seq":
        seq = arg[1]
        if build(seq) is None:
            return None
        res = judge_program(lambda: build(seq), "history %s" % " ".join(seq), arg[2], rng)
        res["tag"] = "history"
        return res
    seed = arg[1]
    res = judge_program(lambda: G.generate(seed)[0], "generated program %d" % seed, True, rng)
    res["tag"] = "progen"
    return res


def run(rep, tier):
    from .. import scale
    scale.run(rep, PROP, tier)          # size ladders (seedverif/scale.py): the entries that concern this property
    rng = core.rng_for(PROP)
    jobs = []
    nmax = 3 if tier == "quick" else 4
    for n in range(1, nmax + 1):
        for seq in itertools.product(TOKENS, repeat=n):
            if canonical(seq) and "}" != seq[0]:
                jobs.append(("seq", seq, n <= 3))
    nrand = 9000 if tier == "quick" else 250000
    weights = [3, 1, 3, 1, 4, 2, 3, 2, 4, 1, 5, 4, 1, 2, 3, 1, 2]
    for _ in range(nrand):
        n = rng.choice([5, 6, 7, 8, 10])
        seq = tuple(rng.choices(TOKENS, weights)[0] for _ in range(n))
        jobs.append(("seq", seq, True))
    for _ in range(nrand // 2):
        n = rng.choice([6, 7, 8, 10, 12])
        seq = tuple(rng.choices(TOKENS + EXTRA, weights + [2, 1, 2, 2, 2, 2])[0] for _ in range(n))
        if any(t in EXTRA for t in seq):
            jobs.append(("seq", seq, True))
    for _ in range(2500 if tier == "quick" else 50000):
        jobs.append(("progen", rng.randrange(1 << 40)))
    for name in named_cases():
        jobs.append(("named", name))
    rng.shuffle(jobs)
    events = {}
    renamed = 0
    for res in core.pool().imap_unordered(work, jobs, chunksize=32):
        if res is None:
            continue
        rep.evaluations += 1
        rep.process_runs += res["runs"]
        if res["discard"]:
            rep.discards += 1
            rep.tally("discards", res["discard"])
            continue
        if res["inconclusive"]:
            rep.note_inconclusive(res["inconclusive"])
            continue
        rep.tally("cases", res["tag"])
        renamed += res["renamed"]
        if res["lines"] >= 1:
            rep.distinct.add(res["sha"])
        for k, v in res["events"].items():
            if k in ("resolve_outer", "assign_outer", "declare", "call", "block"):
                events[k] = events.get(k, 0) + v
        for sig, what, case in res["viol"]:
            rep.violation("C04/" + sig, what, case)
    rep.exhaustive = True
    rep.cov["model_scope_events"] = events
    rep.cov["renamed_variants_run"] = renamed
    rep.rule = ("all well-bracketed sequences up to length %d (canonical up to name symmetry) over {declare/assign/read/op-assign x,y; open block; two-iteration loop; define f/g; call f/g; return a closure that updates x; call-and-keep a returned closure; close}, "
                "every declared/assigned value a unique literal so each read identifies the write it saw; random longer sequences; generated closure-heavy programs. Each program is judged by the model and re-run with one declaration group "
                "(found by union-find over the model's use->declaration resolutions) renamed to an unused name. distinct by SHA-1; non-trivial = prints at least one line") % nmax
    rep.sample({"history": "Dx Ff{ Rx } Cf Ax Cf", "source": "x := 1; fn f() { print(x) }; print(f()); x = 2; print(f())", "expected": "1, <null>, 2, <null>"})
    rep.sample({"history": "Ff{ Rx } Dx Cf", "expected": "the closure sees x declared later in the same scope"})
    rep.sample({"history": "Dx Ff{ RET } CRf", "expected": "returned closure keeps updating the captured x after f returned: 101, 201"})
    rep.require("reads resolved in an outer scope (model)", events.get("resolve_outer", 0), 5000)
    rep.require("renamed variants executed", renamed, 3000)
