"""C16 - no implicit conversions: the full operator x kind x kind matrix and
every typed context x kind, against a table written from the statement."""

from .. import core, harness, judge, sast as A

PROP = "C16"
KINDS = ["null", "bool", "int", "string", "list", "object", "func", "builtin"]
TYPE_NAME = {"null": "null", "bool": "bool", "int": "int", "string": "string", "list": "list",
             "object": "object", "func": "func", "builtin": "func"}
OPS = A.BINOPS
OPASSIGN = ["+", "-", "*", "/", "%"]


def value(kind, alt=False, variant=None):
    """A value of the given kind; `variant` (0..2) selects among several values of that kind."""
    v = (1 if alt else 0) if variant is None else variant
    if kind == "null":
        return A.Null()
    if kind == "bool":
        return A.Bool([True, False, True][v])
    if kind == "int":
        return A.Int([1, 4, -3][v])
    if kind == "string":
        return A.Str(["s", "t", ""][v])
    if kind == "list":
        return [A.lst(A.Int(1)), A.lst(A.Int(2)), A.lst()][v]
    if kind == "object":
        return [A.obj(("a", A.Int(1))), A.obj(("a", A.Int(2))), A.obj()][v]
    if kind == "func":
        return [A.FuncE([A.Var("r")], True, [A.Return(A.Int(1))]), A.FuncE([A.Var("r")], True, [A.Return(A.Int(2))]),
                A.FuncE([A.Var("r")], True, [])][v]
    if kind == "builtin":
        return [A.Var("print"), A.Var("print"), A.Prop(A.Str("abc"), "len", True)][v]
    raise ValueError(kind)


def op_accepts(op, lk, rk):
    """The documented domain of each operator (from the property statement)."""
    if op == "+":
        return (lk, rk) in (("int", "int"), ("string", "string"), ("list", "list"))
    if op in ("-", "*", "/", "%", "<", "<=", ">", ">="):
        return (lk, rk) == ("int", "int")
    if op in ("&&", "||"):
        return (lk, rk) == ("bool", "bool")
    if op in ("==", "!="):
        return lk == rk and lk not in ("func", "builtin")
    if op in ("===", "!=="):
        return (lk, rk) in (("list", "list"), ("object", "object"), ("func", "func"))
    raise ValueError(op)


def probes(names_kinds):
    out = []
    for n, k in names_kinds:
        if k != "null":
            out.append(A.pr(A.Call(A.Prop(A.Var(n), "type", True), [])))
    return out


# typed contexts: name -> (builder(v_name) -> stmts, accepted kinds)
def ctx_table():
    V = A.Var
    P = A.pr
    T = {}
    T["if_cond"] = (lambda v: [A.If([(V(v), [P(A.Str("taken"))])], None)], {"bool"})
    T["elseif_cond"] = (lambda v: [A.If([(A.Bool(False), []), (V(v), [P(A.Str("taken"))])], None)], {"bool"})
    T["while_cond"] = (lambda v: [A.While(V(v), [P(A.Str("in")), A.Break()])], {"bool"})
    # the condition is re-tested on every iteration: a value of another kind reached later is an error too
    T["while_cond_second_test"] = (lambda v: [A.Declare(V("n"), A.Int(0)), A.Declare(V("c"), A.Bool(True)),
                                              A.While(V("c"), [A.OpAssign("+", V("n"), A.Int(1)), A.If([(A.Bin(">", V("n"), A.Int(1)), [A.Break()])], None), A.Assign(V("c"), V(v))]),
                                              P(A.Str("after"))], {"bool"})
    T["if_cond_later_iteration"] = (lambda v: [A.For(V("cv"), A.lst(A.Bool(True), A.Bool(False), V(v)), [A.If([(A.Index(V("cv"), A.Int(1)), [P(A.Str("taken"))])], None)])], {"bool"})
    T["elseif_cond_later_iteration"] = (lambda v: [A.For(V("cv"), A.lst(A.Bool(False), V(v)), [A.If([(A.Bool(False), []), (A.Index(V("cv"), A.Int(1)), [P(A.Str("taken"))])], [P(A.Str("else"))])])], {"bool"})
    T["list_index"] = (lambda v: [P(A.Index(A.lst(A.Int(10), A.Int(11), A.Int(12)), V(v)))], {"int"})
    T["string_index"] = (lambda v: [P(A.Index(A.Str("abc"), V(v)))], {"int"})
    T["range_start"] = (lambda v: [P(A.RangeIndex(A.lst(A.Int(10), A.Int(11), A.Int(12)), V(v), None))], {"int"})
    T["range_end"] = (lambda v: [P(A.RangeIndex(A.Str("abc"), None, V(v)))], {"int"})
    T["range_assign_start"] = (lambda v: [A.Declare(V("xs"), A.lst(A.Int(1), A.Int(2))), A.Assign(A.RangeIndex(V("xs"), V(v), None), A.lst(A.Int(9))), P(V("xs"))], {"int"})
    T["dotdot_start"] = (lambda v: [P(A.Range(V(v), A.Int(3)))], {"int"})
    T["dotdot_end"] = (lambda v: [P(A.Range(A.Int(0), V(v)))], {"int"})
    T["computed_prop_name"] = (lambda v: [P(A.ObjectE([A.Pair(V(v), A.Int(1))]))], {"string"})
    T["object_key_read"] = (lambda v: [P(A.Index(A.obj(("s", A.Int(5))), V(v)))], {"string"})
    T["object_key_write"] = (lambda v: [A.Declare(V("o"), A.obj(("s", A.Int(5)))), A.Assign(A.Index(V("o"), V(v)), A.Int(6)), P(V("o"))], {"string"})
    T["pattern_key"] = (lambda v: [A.Declare(A.ObjectE([A.Pair(V(v), V("got"))]), A.obj(("s", A.Int(5)))), P(V("got"))], {"string"})
    T["interp_slot"] = (lambda v: [P(A.IStr(["<", V(v), ">"]))], {"string"})
    T["interp_lone_slot"] = (lambda v: [P(A.IStr([V(v)]))], {"string"})
    T["interp_lone_slot_declared"] = (lambda v: [A.Declare(V("r"), A.IStr([V(v)])), P(A.Call(A.Prop(V("r"), "type", True), []))], {"string"})
    T["interp_first_slot"] = (lambda v: [P(A.IStr([V(v), "|", V(v)]))], {"string"})
    T["list_spread"] = (lambda v: [P(A.ListE([(A.Int(0), False), (V(v), True)], False))], {"list"})
    T["arg_spread"] = (lambda v: [A.FuncStmt("g", [V("r")], True, [A.Return(V("r"))]), P(A.Call(V("g"), [(V(v), True)]))], {"list"})
    T["object_spread"] = (lambda v: [P(A.ObjectE([A.Single(V(v), True, False)]))], {"object"})
    T["list_pattern_source"] = (lambda v: [A.Declare(A.lst(V("p")), V(v)), P(V("p"))], {"list"})
    T["object_pattern_source"] = (lambda v: [A.Declare(A.ObjectE([A.Single(V("a"), False, False)]), V(v)), P(V("a"))], {"object"})
    T["list_collect_pattern_source"] = (lambda v: [A.Declare(A.ListE([(V("r"), False)], True), V(v)), P(V("r"))], {"list"})
    T["object_collect_pattern_source"] = (lambda v: [A.Declare(A.ObjectE([A.Single(V("r"), False, True)]), V(v)), P(V("r"))], {"object"})
    T["list_collect_param"] = (lambda v: [A.FuncStmt("g", [A.ListE([(V("r"), False)], True)], False, [A.Return(V("r"))]), P(A.call("g", V(v)))], {"list"})
    T["list_pattern_assign"] = (lambda v: [A.Declare(V("p"), A.Int(0)), A.Assign(A.lst(V("p")), V(v)), P(V("p"))], {"list"})
    T["for_iterable_discard"] = (lambda v: [A.For(V("_"), V(v), [P(A.Str("body"))]), P(A.Str("after"))], {"list", "string", "object"})
    T["for_iterable_discard_pair"] = (lambda v: [A.For(A.lst(V("_"), V("_")), V(v), []), P(A.Str("after"))], {"list", "string", "object"})
    T["for_iterable_empty_body"] = (lambda v: [A.For(V("kv"), V(v), []), P(A.Str("after"))], {"list", "string", "object"})
    T["empty_object_pattern_source"] = (lambda v: [A.Declare(A.ObjectE([]), V(v)), P(A.Str("after"))], {"object"})
    T["empty_object_pattern_assign"] = (lambda v: [A.Assign(A.ObjectE([]), V(v)), P(A.Str("after"))], {"object"})
    T["empty_object_pattern_param"] = (lambda v: [A.FuncStmt("g", [A.ObjectE([])], False, [A.Return(A.Int(1))]), P(A.call("g", V(v)))], {"object"})
    T["empty_object_pattern_nested"] = (lambda v: [A.Declare(A.lst(A.ObjectE([])), A.lst(V(v))), P(A.Str("after"))], {"object"})
    T["empty_object_pattern_for"] = (lambda v: [A.For(A.lst(V("_"), A.ObjectE([])), A.lst(V(v)), [P(A.Str("body"))])], {"object"})
    T["discard_rest_list_pattern_source"] = (lambda v: [A.Declare(A.ListE([(V("_"), False)], True), V(v)), P(A.Str("after"))], {"list"})
    T["discard_rest_object_pattern_source"] = (lambda v: [A.Declare(A.ObjectE([A.Single(V("_"), False, True)]), V(v)), P(A.Str("after"))], {"object"})
    T["discard_target"] = (lambda v: [A.Declare(V("_"), V(v)), A.Assign(V("_"), V(v)), P(A.Str("after"))], set(KINDS))
    T["for_iterable"] = (lambda v: [A.For(V("kv"), V(v), [P(V("kv"))])], {"list", "string", "object"})
    T["for_pattern_param"] = (lambda v: [A.FuncStmt("g", [A.lst(V("p"))], False, [A.Return(V("p"))]), P(A.call("g", V(v)))], {"list"})
    T["callee"] = (lambda v: [A.ExprStmt(A.Call(V(v), [(A.Int(7), False)]))], {"func", "builtin"})
    T["prop_base"] = (lambda v: [P(A.Prop(V(v), "a", False))], {"object"})
    T["prop_assign_base"] = (lambda v: [A.Assign(A.Prop(V(v), "a", False), A.Int(3)), P(A.Str("done"))], {"object"})
    T["index_base_int"] = (lambda v: [P(A.Index(V(v), A.Int(0)))], {"list", "string"})
    T["index_base_str"] = (lambda v: [P(A.Index(V(v), A.Str("a")))], {"object"})
    T["index_assign_base_int"] = (lambda v: [A.Assign(A.Index(V(v), A.Int(0)), A.Int(3)), P(A.Str("done"))], {"list"})
    T["index_assign_base_str"] = (lambda v: [A.Assign(A.Index(V(v), A.Str("a")), A.Int(3)), P(A.Str("done"))], {"object"})
    T["range_index_base"] = (lambda v: [P(A.RangeIndex(V(v), A.Int(0), A.Int(1)))], {"list", "string"})
    T["range_assign_base"] = (lambda v: [A.Assign(A.RangeIndex(V(v), A.Int(0), A.Int(1)), A.lst(A.Int(3))), P(A.Str("done"))], {"list"})
    T["range_assign_rhs"] = (lambda v: [A.Declare(V("xs"), A.lst(A.Int(1), A.Int(2))), A.Assign(A.RangeIndex(V("xs"), A.Int(0), A.Int(1)), V(v)), P(V("xs"))], {"list", "string"})
    T["type_fn_base"] = (lambda v: [P(A.Call(A.Prop(V(v), "type", True), []))], set(KINDS) - {"null"})
    T["len_fn_base"] = (lambda v: [P(A.Call(A.Prop(V(v), "len", True), []))], {"string"})
    return T


CTX = ctx_table()


def build_case(desc):
    kind = desc[0]
    V = A.Var
    if kind == "op":
        form, op, lk, rk = desc[1:5]
        same_fn = desc[5] if len(desc) > 5 else False
        va, vb = (desc[6], desc[7]) if len(desc) > 7 else (0, 1)
        prog = [A.Declare(V("a"), value(lk, variant=va)), A.Declare(V("b"), V("a") if same_fn else value(rk, variant=vb))]
        prog += probes([("a", lk), ("b", rk)])
        if form in ("lit", "lit_right", "lit_left"):
            # the operands written out in the expression itself (a literal next to the operator), not fetched from variables
            l = value(lk, variant=va) if form != "lit_right" else V("a")
            r = value(rk, variant=vb) if form != "lit_left" else V("b")
            if isinstance(l, (A.ObjectE, A.FuncE)):
                l = A.Paren(l)
            prog.append(A.pr(A.Bin(op, l, r)))
        elif form == "plain":
            prog.append(A.pr(A.Bin(op, V("a"), V("b"))))
        elif form == "var":
            prog += [A.OpAssign(op, V("a"), V("b")), A.pr(V("a"))]
        elif form == "elem":
            prog += [A.Declare(V("xs"), A.lst(V("a"))), A.OpAssign(op, A.Index(V("xs"), A.Int(0)), V("b")), A.pr(V("xs"))]
        elif form == "prop":
            prog += [A.Declare(V("o"), A.obj(("p", V("a")))), A.OpAssign(op, A.Prop(V("o"), "p", False), V("b")), A.pr(V("o"))]
        acc = op_accepts(op, lk, rk)
        return {"prog": prog, "expect_error": not acc, "tags": ["op:%s:%s" % (form, op)], "check_pos": True,
                "check_atoms": True, "post": "post_op", "op": op, "lk": lk, "rk": rk, "accept": acc,
                "trace": True, "keep_trace": True}
    if kind == "nested":
        _, op, lk, rk, wrap, same = desc
        w = (lambda e: A.lst(A.Int(0), e)) if wrap == "list" else (lambda e: A.obj(("k", A.Int(0)), ("v", e)))
        prog = [A.Declare(V("a"), value(lk, variant=0)), A.Declare(V("b"), V("a") if same else value(rk, variant=0 if lk == rk else 1))]
        prog += probes([("a", lk), ("b", rk)])
        prog.append(A.pr(A.Bin(op, w(V("a")), w(V("b")))))
        acc = lk == rk and lk not in ("func", "builtin")
        return {"prog": prog, "expect_error": not acc, "tags": ["nested:%s:%s" % (wrap, op)], "check_pos": True, "post": "post_nested", "accept": acc,
                "op": op, "lk": lk, "rk": rk}
    if kind == "ctx":
        _, name, k = desc
        builder, accepted = CTX[name]
        prog = [A.Declare(V("v"), value(k))] + builder("v")
        acc = k in accepted
        return {"prog": prog, "expect_error": not acc, "tags": ["ctx:%s" % name], "check_pos": True,
                "post": "post_ctx", "accept": acc, "ctx": name, "k": k}
    raise ValueError(desc)


def post_op(case, r, res, obs):
    out = []
    if case["accept"]:
        if obs.code != 0:
            out.append(("C16/op-rejected/%s" % case["op"], "%s %s %s is inside the documented domain but was rejected" % (case["lk"], case["op"], case["rk"])))
        return out
    if obs.code != 103:
        out.append(("C16/op-accepted/%s" % case["op"], "%s %s %s is outside the documented domain but yielded a value" % (case["lk"], case["op"], case["rk"])))
        return out
    # type names in the diagnostic must be the ones ->type() printed for the operands
    lines = obs.out.decode().split("\n")
    names = []
    i = 0
    for k in (case["lk"], case["rk"]):
        if k == "null":
            names.append("null")
        else:
            names.append(lines[i] if i < len(lines) else "?")
            i += 1
    d = judge.Diag(obs.err)
    if d.ok:
        want = [case["op"], names[0], names[1]]
        if not judge.atoms_in_order(d.msg, want):
            out.append(("C16/op-message/%s" % case["op"], "diagnostic %r does not name operator and operand types %s in order" % (d.msg, want)))
        if set(names) - {"bool", "int", "string", "list", "object", "func", "null"}:
            out.append(("C16/type-names", "->type() printed %s" % names))
    return out


def post_nested(case, r, res, obs):
    if case["accept"] and obs.code != 0:
        return [("C16/nested-rejected/%s" % case["op"], "containers holding two %s values must be comparable" % case["lk"])]
    if not case["accept"] and obs.code != 103:
        return [("C16/nested-accepted/%s" % case["op"], "containers holding a %s and a %s at the same position must not compare silently" % (case["lk"], case["rk"]))]
    if not case["accept"]:
        d = judge.Diag(obs.err)
        lt, rt = TYPE_NAME[case["lk"]], TYPE_NAME[case["rk"]]
        if d.ok and not (judge.atoms_in_order(d.msg, [lt]) and judge.atoms_in_order(d.msg, [rt])):
            return [("C16/nested-message/%s" % case["op"], "diagnostic %r does not name both types (%s, %s)" % (d.msg, lt, rt))]
    return []


def post_ctx(case, r, res, obs):
    if case["accept"] and obs.code != 0:
        return [("C16/ctx-rejected/%s" % case["ctx"], "%s in context %s is documented as valid but was rejected" % (case["k"], case["ctx"]))]
    if not case["accept"] and obs.code != 103:
        return [("C16/ctx-accepted/%s" % case["ctx"], "%s in context %s must be a type error but was accepted" % (case["k"], case["ctx"]))]
    return []


def literal_operand_descs(ops, tier):
    out = []
    for op in ops:
        for lk in KINDS:
            for rk in KINDS:
                for form in ("lit", "lit_right", "lit_left"):
                    # variant 2 is the empty / zero-like value of each kind ([] {} "" -3), variant 0 an ordinary one
                    for va, vb in ((2, 2), (0, 2), (2, 0)) if (tier == "thorough" or form == "lit_right") else ((2, 2),):
                        out.append(("op", form, op, lk, rk, False, va, vb))
    return out


OPASSIGN_SET = None


def run(rep, tier):
    global OPASSIGN_SET
    OPASSIGN_SET = set(OPASSIGN)
    from .. import scale
    scale.run(rep, PROP, tier)          # size ladders (seedverif/scale.py): the entries that concern this property
    descs = []
    for op in OPS:
        for lk in KINDS:
            for rk in KINDS:
                descs.append(("op", "plain", op, lk, rk))
                if lk == rk and lk in ("list", "object", "func"):
                    descs.append(("op", "plain", op, lk, rk, True))     # the same cell on both sides
                if lk == rk:
                    # equal operands (built twice, and one variable used twice): the kinds decide, not the values
                    for v in range(3):
                        descs.append(("op", "plain", op, lk, rk, False, v, v))
                    descs.append(("op", "plain", op, lk, rk, True, 1, 1))
                    descs.append(("op", "var", op, lk, rk, False, 0, 0) if op in OPASSIGN_SET else ("op", "plain", op, lk, rk, True, 2, 2))
    for form in ("var", "elem", "prop"):
        for op in OPASSIGN:
            for lk in KINDS:
                for rk in KINDS:
                    descs.append(("op", form, op, lk, rk))
    descs += literal_operand_descs(OPS, tier)
    for name in CTX:
        for k in KINDS:
            descs.append(("ctx", name, k))
    for op in ("==", "!="):
        for lk in KINDS:
            for rk in KINDS:
                for wrap in ("list", "object"):
                    descs.append(("nested", op, lk, rk, wrap, False))
                    if lk == rk:
                        descs.append(("nested", op, lk, rk, wrap, True))     # the very same value in both containers
    if tier == "thorough":
        # every cell again with every combination of three values per kind
        for op in OPS:
            for lk in KINDS:
                for rk in KINDS:
                    for va in range(3):
                        for vb in range(3):
                            if (va, vb) != (0, 1):
                                descs.append(("op", "plain", op, lk, rk, False, va, vb))
        for form in ("var", "elem", "prop"):
            for op in OPASSIGN:
                for lk in KINDS:
                    for rk in KINDS:
                        for va, vb in ((1, 0), (2, 2), (0, 2)):
                            descs.append(("op", form, op, lk, rk, False, va, vb))
    hook_cells = set()

    def on_result(res):
        tr = res.get("trace")
        if tr:
            for ln in tr.split("\n"):
                if ln.startswith("B "):
                    p = ln.split()
                    hook_cells.add((p[1], p[2], p[3]))

    harness.run_cases(rep, "seedverif.checks.c16", descs, {"oracle": "documented-domain table"}, on_result=on_result)
    rep.exhaustive = True
    rep.rule = ("exhaustive matrix: %d binary operators x 8x8 ordered value kinds (null,bool,int,string,list,object,user function,builtin) in plain form, "
                "5 op-assign operators x 64 pairs x {variable, element, property}, and %d typed contexts x 8 kinds; every cell is a distinct program; "
                "non-trivial = the cell's construct is reached (model trace) - all cells" % (len(OPS), len(CTX)))
    rep.cov["hook_operator_kind_cells_seen_by_evaluator"] = len(hook_cells)
    rep.extra["cells"] = len(descs)
    rep.extra["contexts"] = sorted(CTX)
    rep.sample({"cell": "int + string", "source": 'a := 1; b := "t"; print(a->type()); print(b->type()); print(a + b)',
                "expected": "exit 103; message names '+', 'int', 'string' in order, at the operator"})
    rep.sample({"cell": "for iterable x int", "source": "v := 1; for kv in v { print(kv) }", "expected": "exit 103"})
    rep.sample({"cell": "func === func (same cell)", "source": "a := fn(..r){return 1}; b := a; print(a === b)", "expected": "true"})
    rep.assumptions = ["the acceptance table in c16.py transcribes the statement of C16"]
    # 15 operators x 8 x 8 kinds as the evaluator distinguishes them
    rep.require("operator/kind/kind cells seen by the evaluator hook", len(hook_cells), 15 * 64)
