"""C02 - evaluation never crashes: it completes or reports a diagnostic.

Oracle: exit status / stderr classification only.  The reference model is used
solely as a termination filter (programs it cannot finish within its budget,
e.g. structural traversal of cyclic data, are discarded, not judged)."""

import itertools
import random

from .. import core, model as M, printer as P, progen as G, sast as A

PROP = "C02"
V, I, S = A.Var, A.Int, A.Str
MAX = 2 ** 63 - 1
MIN = -(2 ** 63)


# ------------------------------------------------------------------ alias shapes

def shape_setup(shape, ck):
    """Statements defining a and b with the given alias relation; ck in list/object."""
    L = ck == "list"
    c0 = (lambda: A.lst(I(1), I(2))) if L else (lambda: A.obj(("k", I(1)), ("m", I(2))))
    first = (lambda x: A.Index(x, I(0))) if L else (lambda x: A.Prop(x, "k", False))
    wrap = (lambda x: A.lst(x)) if L else (lambda x: A.obj(("k", x)))
    set_first = lambda tgt, val: A.Assign(first(tgt), val)
    if shape == "same":
        return [A.Declare(V("a"), c0()), A.Declare(V("b"), V("a"))]
    if shape == "element":
        return [A.Declare(V("a"), wrap(c0())), A.Declare(V("b"), first(V("a")))]
    if shape == "wrapper":
        return [A.Declare(V("a"), c0()), A.Declare(V("b"), wrap(V("a")))]
    if shape == "nested_wrapper":
        return [A.Declare(V("a"), wrap(c0())), A.Declare(V("b"), wrap(V("a")))]
    if shape == "shared_child":
        return [A.Declare(V("c"), c0()), A.Declare(V("a"), wrap(V("c"))),
                A.Declare(V("b"), A.lst(V("c"), V("c")) if L else A.obj(("k", V("c")), ("m", V("c"))))]
    if shape == "two_paths":
        return [A.Declare(V("h"), A.obj(("x", c0()))), A.Declare(V("a"), A.Prop(V("h"), "x", False)),
                A.Declare(V("b"), A.Index(V("h"), S("x")))]
    if shape == "self_cycle":
        return [A.Declare(V("a"), c0()), set_first(V("a"), V("a")), A.Declare(V("b"), V("a"))]
    if shape == "cycle_and_element":
        return [A.Declare(V("a"), c0()), set_first(V("a"), V("a")), A.Declare(V("b"), first(V("a")))]
    if shape == "mutual_cycle":
        return [A.Declare(V("a"), c0()), A.Declare(V("b"), wrap(V("a"))), set_first(V("a"), V("b"))]
    if shape == "cycle_vs_fresh":
        return [A.Declare(V("a"), c0()), set_first(V("a"), V("a")), A.Declare(V("b"), c0())]
    if shape == "mixed":
        return [A.Declare(V("a"), A.lst(A.obj(("k", A.lst(I(1)))))), A.Declare(V("b"), A.Index(V("a"), I(0)))]
    raise ValueError(shape)


SHAPES = ["same", "element", "wrapper", "nested_wrapper", "shared_child", "two_paths", "self_cycle",
          "cycle_and_element", "mutual_cycle", "cycle_vs_fresh", "mixed"]


def operations():
    ops = {}
    for op in A.BINOPS:
        ops["bin " + op] = lambda x, y, op=op: [A.Declare(V("r"), A.Bin(op, x(), y())), A.pr(S("done"))]
    for op in ["+", "-", "*", "/", "%"]:
        ops["opassign var " + op] = lambda x, y, op=op: [A.Declare(V("t"), x()), A.OpAssign(op, V("t"), y()), A.pr(S("done"))]
        ops["opassign elem " + op] = lambda x, y, op=op: [A.OpAssign(op, A.Index(x(), I(0)), y()), A.pr(S("done"))]
        ops["opassign key " + op] = lambda x, y, op=op: [A.OpAssign(op, A.Index(x(), S("k")), y()), A.pr(S("done"))]
        ops["opassign prop " + op] = lambda x, y, op=op: [A.OpAssign(op, A.Prop(x(), "k", False), y()), A.pr(S("done"))]
        ops["opassign wrapped " + op] = lambda x, y, op=op: [A.Declare(V("w"), A.lst(x())), A.OpAssign(op, A.Index(V("w"), I(0)), y()), A.pr(S("done"))]
    ops["range assign"] = lambda x, y: [A.Assign(A.RangeIndex(x(), I(0), I(1)), y()), A.pr(S("done"))]
    ops["range assign all"] = lambda x, y: [A.Assign(A.RangeIndex(x(), None, None), y()), A.pr(S("done"))]
    ops["range assign self slice"] = lambda x, y: [A.Assign(A.RangeIndex(x(), I(0), I(1)), A.RangeIndex(y(), I(1), I(2))), A.pr(S("done"))]
    ops["elem assign"] = lambda x, y: [A.Assign(A.Index(x(), I(0)), y()), A.pr(S("done"))]
    ops["key assign"] = lambda x, y: [A.Assign(A.Index(x(), S("k")), y()), A.pr(S("done"))]
    ops["prop assign"] = lambda x, y: [A.Assign(A.Prop(x(), "k", False), y()), A.pr(S("done"))]
    ops["list spread"] = lambda x, y: [A.Declare(V("r"), A.ListE([(x(), True), (y(), True)], False)), A.pr(S("done"))]
    ops["object spread"] = lambda x, y: [A.Declare(V("r"), A.ObjectE([A.Single(x(), True, False), A.Single(y(), True, False)])), A.pr(S("done"))]
    ops["arg spread"] = lambda x, y: [A.FuncStmt("g", [V("r")], True, [A.Return(V("r"))]), A.Declare(V("q"), A.Call(V("g"), [(x(), True), (y(), True)])), A.pr(S("done"))]
    ops["list destructure"] = lambda x, y: [A.Declare(A.lst(V("p"), V("q")), x()), A.Assign(A.lst(V("p"), V("q")), y()), A.pr(S("done"))]
    ops["list collect"] = lambda x, y: [A.Declare(A.ListE([(V("p"), False), (V("q"), False)], True), x()), A.pr(S("done"))]
    ops["destructure into own slots"] = lambda x, y: [A.Assign(A.lst(A.Index(x(), I(1)), A.Index(y(), I(0))), x()), A.pr(S("done"))]
    ops["object destructure"] = lambda x, y: [A.Declare(A.ObjectE([A.Single(V("k"), False, False), A.Single(V("rest"), False, True)]), x()), A.pr(S("done"))]
    ops["object destructure into own slots"] = lambda x, y: [A.Assign(A.ObjectE([A.Pair(S("k"), A.Prop(y(), "m", False))]), x()), A.pr(S("done"))]
    ops["print"] = lambda x, y: [A.pr(x())]
    ops["type"] = lambda x, y: [A.pr(A.Call(A.Prop(x(), "type", True), []))]
    ops["index"] = lambda x, y: [A.Declare(V("r"), A.Index(x(), I(0))), A.Declare(V("r2"), A.Index(x(), y())), A.pr(S("done"))]
    ops["for mutate"] = lambda x, y: [A.For(A.lst(V("i"), V("e")), x(), [A.Assign(A.Index(x(), I(0)), y()), A.Assign(A.Index(y(), I(0)), V("e"))]), A.pr(S("done"))]
    ops["for over object mutate"] = lambda x, y: [A.For(A.lst(V("i"), V("e")), x(), [A.Assign(A.Index(x(), S("zz")), y())]), A.pr(S("done"))]
    ops["eq chain"] = lambda x, y: [A.Declare(V("r"), A.Bin("==", A.lst(x(), y()), A.lst(y(), x()))), A.pr(S("done"))]
    ops["eq wrapped"] = lambda x, y: [A.Declare(V("r"), A.Bin("==", A.obj(("k", x())), y())), A.pr(S("done"))]
    ops["concat self"] = lambda x, y: [A.Declare(V("t"), x()), A.OpAssign("+", V("t"), V("t")), A.OpAssign("+", V("t"), y()), A.pr(S("done"))]
    ops["call with both"] = lambda x, y: [A.FuncStmt("g", [V("p"), V("q")], False, [A.Assign(A.Index(V("p"), I(0)), V("q")), A.Return(A.Bin("===", V("p"), V("q")))]), A.pr(A.call("g", x(), y()))]
    ops["nested same call"] = lambda x, y: [A.FuncStmt("g", [V("p"), V("q")], False, [A.Return(V("p"))]), A.pr(A.call("g", A.call("g", x(), y()), A.call("g", y(), x())))]
    ops["recursive fn as own arg"] = lambda x, y: [A.FuncStmt("g", [V("f"), V("n")], False, [A.If([(A.Bin(">", V("n"), I(0)), [A.Return(A.call("f", V("f"), A.Bin("-", V("n"), I(1))))])], None), A.Return(x())]),
                                                   A.Declare(V("r"), A.call("g", V("g"), I(3))), A.pr(S("done"))]
    ops["key from own property"] = lambda x, y: [A.Assign(A.Index(x(), A.Index(x(), S("k"))), y()), A.pr(S("done"))]
    ops["key opassign from own property"] = lambda x, y: [A.OpAssign("+", A.Index(x(), A.Bin("+", S("k"), A.Call(A.Prop(A.Index(x(), S("k")), "type", True), []))), I(1)), A.pr(S("done"))]
    ops["index from own element"] = lambda x, y: [A.Assign(A.Index(x(), A.Index(x(), I(0))), y()), A.pr(S("done"))]
    ops["print no args via empty spread"] = lambda x, y: [A.ExprStmt(A.Call(V("print"), [(A.lst(), True)]))]
    ops["print two args via spread"] = lambda x, y: [A.ExprStmt(A.Call(V("print"), [(A.lst(x(), y()), True)]))]
    ops["type fn with args"] = lambda x, y: [A.ExprStmt(A.Call(A.Prop(x(), "type", True), [(y(), False)]))]
    ops["len with spread args"] = lambda x, y: [A.ExprStmt(A.Call(A.Prop(S("é"), "len", True), [(A.lst(x()), True)]))]
    ops["interp"] = lambda x, y: [A.pr(A.IStr(["é", A.Call(A.Prop(x(), "type", True), []), "✓", A.Call(A.Prop(y(), "type", True), [])]))]
    return ops


OPS = operations()


def build_alias(desc):
    _, shape, ck, opname, order = desc
    setup = shape_setup(shape, ck)
    x, y = (lambda: V("a")), (lambda: V("b"))
    if order:
        x, y = y, x
    return setup + OPS[opname](x, y)


# ------------------------------------------------------------------ integer extremes in index / range positions

EXT = [MAX, MAX - 1, MIN, MIN + 1, 2 ** 32, -(2 ** 32), 2 ** 31, 0, 1, -1, 3, 4]


def build_int(desc):
    _, form, a, b = desc
    la, lb = (lambda: A.lit(a)), (lambda: A.lit(b))
    pre = [A.Declare(V("xs"), A.lst(I(1), I(2), I(3))), A.Declare(V("s"), S("aé✓")), A.Declare(V("o"), A.obj(("k", I(1))))]
    forms = {
        "list_index": lambda: [A.pr(A.Index(V("xs"), la()))],
        "str_index": lambda: [A.pr(A.Bin("==", A.Index(V("s"), la()), S("a")))],
        "list_range": lambda: [A.pr(A.RangeIndex(V("xs"), la(), lb()))],
        "str_range": lambda: [A.pr(A.Bin("==", A.RangeIndex(V("s"), la(), lb()), S("")))],
        "list_range_open": lambda: [A.pr(A.RangeIndex(V("xs"), la(), None)), A.pr(A.RangeIndex(V("xs"), None, lb()))],
        "range": lambda: [A.pr(A.Range(la(), lb()))],
        "elem_assign": lambda: [A.Assign(A.Index(V("xs"), la()), lb()), A.pr(V("xs"))],
        "elem_opassign": lambda: [A.OpAssign("+", A.Index(V("xs"), la()), lb()), A.pr(V("xs"))],
        "range_assign": lambda: [A.Assign(A.RangeIndex(V("xs"), la(), lb()), A.lst(I(9))), A.pr(V("xs"))],
        "range_assign_open": lambda: [A.Assign(A.RangeIndex(V("xs"), la(), None), A.lst(I(9))), A.Assign(A.RangeIndex(V("xs"), None, lb()), S("z")), A.pr(V("xs"))],
        "range_of_range": lambda: [A.pr(A.RangeIndex(A.Paren(A.Range(la(), lb())), I(0), I(1)))],
        "arith_chain": lambda: [A.pr(A.Bin("%", A.Bin("/", A.Bin("-", la(), lb()), A.lit(-1)), lb()))],
        "neg_of_min": lambda: [A.pr(A.Bin("*", la(), A.lit(-1))), A.pr(A.Bin("/", la(), A.lit(-1))), A.pr(A.Bin("%", la(), A.lit(-1))), A.pr(A.Bin("-", I(0), la()))],
        "cmp_in_cond": lambda: [A.If([(A.Bin("<", la(), lb()), [A.pr(S("lt"))])], [A.pr(S("ge"))]), A.While(A.Bin(">", la(), lb()), [A.Break()])],
    }
    return pre + forms[form]()


INT_FORMS = ["list_index", "str_index", "list_range", "str_range", "list_range_open", "range", "elem_assign", "elem_opassign",
             "range_assign", "range_assign_open", "range_of_range", "arith_chain", "neg_of_min", "cmp_in_cond"]


# ------------------------------------------------------------------ text

TEXTS = ["é", "✓x", "😀", "a\x00b", "", "\n", "aé", "é✓😀", "${", "}{", "\\", '"', "$"]


def text_value(t, lone):
    """Expression for the string, or for a lone (invalid UTF-8) byte taken out of it."""
    if lone:
        return A.Index(S("é✓"), I(lone - 1))
    return S(t)


def build_text(desc):
    _, form, ti, lone, k = desc
    sv = lambda: text_value(TEXTS[ti], lone)
    pre = [A.Declare(V("s"), sv()), A.Declare(V("o"), A.obj(("k", I(1)), ("é", I(2)))), A.Declare(V("xs"), A.lst(I(1), I(2), I(3), I(4)))]
    s = lambda: V("s")
    forms = {
        "index": lambda: [A.Declare(V("r"), A.Index(s(), I(k))), A.pr(A.Bin("==", V("r"), s()))],
        "range": lambda: [A.Declare(V("r"), A.RangeIndex(s(), I(k % 3), I(k))), A.pr(A.Bin("==", V("r"), s()))],
        "range_open": lambda: [A.Declare(V("r"), A.Bin("+", A.RangeIndex(s(), None, I(k)), A.RangeIndex(s(), I(k), None))), A.pr(A.Bin("==", V("r"), s()))],
        "for": lambda: [A.Declare(V("acc"), S("")), A.For(A.lst(V("i"), V("c")), s(), [A.OpAssign("+", V("acc"), V("c"))]), A.pr(A.Bin("==", V("acc"), s()))],
        "concat_eq": lambda: [A.pr(A.Bin("==", A.Bin("+", s(), s()), A.Bin("+", s(), S("x"))))],
        "prop_name": lambda: [A.pr(A.ObjectE([A.Pair(s(), I(1))]))],
        "key_read": lambda: [A.pr(A.Index(V("o"), s()))],
        "key_write": lambda: [A.Assign(A.Index(V("o"), s()), I(5)), A.pr(V("o"))],
        "key_opassign": lambda: [A.OpAssign("+", A.Index(V("o"), s()), I(5)), A.pr(V("o"))],
        "pattern_key": lambda: [A.Declare(A.ObjectE([A.Pair(s(), V("got")), A.Single(V("rest"), False, True)]), V("o")), A.pr(V("rest"))],
        "slot": lambda: [A.pr(A.IStr([V("s")]))],
        "slot_after_text": lambda: [A.pr(A.IStr(["é✓😀 ", V("s"), " é ", V("s"), "😀"]))],
        "len": lambda: [A.pr(A.Call(A.Prop(s(), "len", True), []))],
        "print": lambda: [A.pr(s())],
        "print_in_list": lambda: [A.pr(A.lst(s(), A.obj(("k", s()))))],
        "range_assign_rhs": lambda: [A.Assign(A.RangeIndex(V("xs"), I(0), I(k)), s()), A.pr(A.Bin("==", A.Index(V("xs"), I(0)), s()))],
        "spread": lambda: [A.pr(A.ListE([(s(), True)], False))],
        "type": lambda: [A.pr(A.Call(A.Prop(s(), "type", True), []))],
        "compare": lambda: [A.pr(A.Bin("<", s(), s()))],
        "call": lambda: [A.ExprStmt(A.Call(s(), []))],
        "literal_interp": lambda: [A.pr(A.IStr([TEXTS[ti], V("s"), TEXTS[(ti + 1) % len(TEXTS)], A.Str(TEXTS[ti]) if "{" not in TEXTS[ti] and "}" not in TEXTS[ti] else A.Str("x"), TEXTS[ti]]))],
        # the literal runs over several lines (raw LF / CR LF / CR inside it), multi-byte text before the break, slots right after it
        "literal_interp_multiline": lambda: [A.pr(A.IStr([("Grüße é✓ " + "x" * k + "\n", "Grüße é✓ " + "x" * k + "\n"), V("s"), ("\r\n", "\r\n"), V("s"), (" é\r", " é\r"), V("s"), ("😀\n\n", "😀\n\n"), A.Str(TEXTS[ti]) if "{" not in TEXTS[ti] and "}" not in TEXTS[ti] else A.Str("x"), " tail"])),
                                             A.pr(A.IStr([("\n", "\n"), V("s")])), A.pr(A.StrLit("é\n✓\r\n😀" + "y" * k, "é\n✓\r\n😀" + "y" * k)),
                                             A.pr(A.IStr([("é\n", "é\n"), V("undefined_name")]))],
    }
    return pre + forms[form]()


TEXT_FORMS = ["literal_interp_multiline", "index", "range", "range_open", "for", "concat_eq", "prop_name", "key_read", "key_write", "key_opassign", "pattern_key",
              "slot", "slot_after_text", "len", "print", "print_in_list", "range_assign_rhs", "spread", "type", "compare", "call",
              "literal_interp"]


def build(desc):
    if desc[0] == "alias":
        return build_alias(desc)
    if desc[0] == "int":
        return build_int(desc)
    if desc[0] == "text":
        return build_text(desc)
    if desc[0] == "progen":
        prog, g = G.generate(desc[1], hostile=True, p_fail=0.5)
        return prog
    raise ValueError(desc)


def work(desc):
    out = {"desc": desc, "viol": None, "discard": None, "inconclusive": None, "sha": None, "code": None, "same_cell": 0}
    try:
        prog = build(desc)
        r = P.render(prog)
    except Exception as e:
        out["inconclusive"] = "generator error %r" % (e,)
        return out
    out["sha"] = core.sha(r.text)[:12]
    if int(out["sha"][:3], 16) % 97 == 0 and len(r.text) < 1500:
        out["sample_src"] = r.text
    try:
        res = M.run(prog, r, fuel=20000)
        out["model"] = "ok" if res.ok else res.error.kind
    except M.ModelLimit as e:
        out["discard"] = "model limit: %s" % e
        return out
    o = core.run_one({"src": r.text, "trace": desc[0] == "alias"})
    out["code"] = o.code
    if o.trace:
        out["same_cell"] = sum(1 for ln in o.trace.split("\n") if ln.startswith("B ") and " same" in ln)
        out["binops"] = sum(1 for ln in o.trace.split("\n") if ln.startswith("B "))
    if o.timeout:
        out["inconclusive"] = "timeout"
    elif o.died:
        o2 = core.run_one({"src": r.text, "bin": core.BIN_PLAIN})
        if o2.died:
            first = o.err.decode("utf-8", "replace").split("\n")
            where = next((l for l in first if "panicked at" in l or "overflowed its stack" in l), "exit %s" % o.code)
            msg = next((l for l in first if l and "panicked at" not in l and not l.startswith("note:")), "")
            import re
            where = re.sub(r"\(\d+\) ", "", where)          # thread id
            out["viol"] = ("crash/" + where.split("panicked at ")[-1].strip().rstrip(":"),
                           "the interpreter crashed (exit %s): %s %s" % (o.code, where.strip(), msg.strip()),
                           {"src": r.text, "oracle": "crash classifier", "desc": repr(desc), "observed": o.brief()})
        else:
            out["inconclusive"] = "crash not reproduced on the plain binary"
    return out


def memcheck_work(desc):
    """Sanitizer pass: the same hostile programs under valgrind memcheck (plain binary)."""
    import os
    import subprocess
    import tempfile
    import shutil
    out = {"desc": desc, "errors": None, "skipped": False}
    try:
        prog = build(desc)
        r = P.render(prog)
        M.run(prog, r, fuel=5000)
    except M.ModelLimit:
        out["skipped"] = True
        return out
    d = tempfile.mkdtemp(prefix="c02vg-", dir="/dev/shm" if os.path.isdir("/dev/shm") else core.WORK)
    try:
        with open(os.path.join(d, "t.sd"), "w") as f:
            f.write(r.text)
        p = subprocess.run(["valgrind", "-q", "--error-exitcode=99", "--errors-for-leak-kinds=none", "--leak-check=no",
                            core.BIN_PLAIN, "t.sd"], cwd=d, env={}, stdin=subprocess.DEVNULL, stdout=subprocess.PIPE, stderr=subprocess.PIPE, timeout=120)
        out["code"] = p.returncode
        if p.returncode == 99 or b"Invalid read" in p.stderr or b"Invalid write" in p.stderr or b"uninitialised" in p.stderr:
            out["errors"] = p.stderr.decode("utf-8", "replace")[-1500:]
            out["src"] = r.text
    except subprocess.TimeoutExpired:
        out["skipped"] = True
    finally:
        shutil.rmtree(d, ignore_errors=True)
    return out


def run(rep, tier):
    from .. import scale
    scale.run(rep, PROP, tier)          # size ladders (seedverif/scale.py): the entries that concern this property
    rng = core.rng_for(PROP)
    descs = []
    for shape in SHAPES:
        for ck in ("list", "object"):
            if shape == "mixed" and ck == "object":
                continue
            for opname in OPS:
                for order in (0, 1):
                    descs.append(("alias", shape, ck, opname, order))
    n_alias = len(descs)
    for form in INT_FORMS:
        for a, b in itertools.product(EXT, EXT):
            descs.append(("int", form, a, b))
    for form in TEXT_FORMS:
        for ti in range(len(TEXTS)):
            for k in (0, 1, 2, 3, 5):
                descs.append(("text", form, ti, 0, k))
        for lone in (1, 2, 3):
            for k in (0, 1, 2):
                descs.append(("text", form, 0, lone, k))
    nrand = 12000 if tier == "quick" else 300000
    for _ in range(nrand):
        descs.append(("progen", rng.randrange(1 << 40)))
    rng.shuffle(descs)
    same_cell_events = 0
    for res in core.pool().imap_unordered(work, descs, chunksize=16):
        rep.evaluations += 1
        if res["discard"]:
            rep.discards += 1
            rep.tally("discards", res["desc"][0] + ": " + res["discard"])
            continue
        rep.process_runs += 1
        if res["inconclusive"]:
            rep.note_inconclusive(res["inconclusive"], {"desc": repr(res["desc"])[:200]})
            continue
        rep.distinct.add(res["sha"])
        d = res["desc"]
        rep.tally("family", d[0])
        rep.tally("exit_status", str(res["code"]))
        if d[0] == "alias":
            rep.tally("alias_shape", "%s/%s" % (d[1], d[2]))
            rep.tally("alias_operation", d[3])
            same_cell_events += res.get("same_cell", 0)
        if res.get("sample_src"):
            rep.actual_sample({"desc": repr(d)[:200], "source": res["sample_src"], "exit_status": res["code"]})
        if res["viol"]:
            rep.violation(*res["viol"])
    from .. import rawfiles
    rawfiles.run(rep, PROP)
    # memory-error sanitizer over a sample of the same workload
    vg_sample = [d for d in descs if d[0] != "progen"][:: (40 if tier == "quick" else 6)] + [d for d in descs if d[0] == "progen"][: (40 if tier == "quick" else 600)]
    vg_runs = 0
    for res in core.pool().imap_unordered(memcheck_work, vg_sample, chunksize=2):
        if res["skipped"]:
            continue
        vg_runs += 1
        rep.process_runs += 1
        if res["errors"]:
            rep.violation("memcheck/" + res["desc"][0], "valgrind memcheck reports a memory error: " + res["errors"][-300:],
                          {"src": res["src"], "oracle": "valgrind memcheck", "report": res["errors"]})
    rep.cov["valgrind_memcheck_runs"] = vg_runs
    rep.exhaustive = True
    rep.cov["hook_operator_entries_with_both_operands_the_same_cell"] = same_cell_events
    rep.extra["alias_matrix_cases"] = n_alias
    rep.rule = ("exhaustive alias-shape x operation matrix (%d shapes x list/object x %d operations x both operand orders), extreme integers in every index/range/assignment position, "
                "multi-byte / NUL / lone-byte strings in every string-consuming position, plus hostile random programs; only exit status and stderr are judged (crash = exit not in {0,103}, signal, or `panicked at`); "
                "distinct by SHA-1; non-trivial = the program reaches the targeted operation (all matrix cases do by construction)") % (len(SHAPES), len(OPS))
    rep.sample({"case": "element / list / opassign elem +", "source": "a := [[1, 2]]; b := a[0]; a[0] += b ...", "expected": "exit 0 or 103, never 101"})
    rep.sample({"case": "self_cycle / bin ==", "source": "a := [1, 2]; a[0] = a; b := a; r := a == b", "expected": "no crash (identity short cut)"})
    rep.sample({"case": "text / slot_after_text", "source": 's := "é"; print($"é✓😀 ${s} é ${s}😀")', "expected": "no crash"})
    rep.assumptions = ["model used only to discard programs whose documented semantics do not terminate within budget (e.g. printing cyclic values)",
                       "stack overflow is outside the quantifier ('fits the host stack'): counted as inconclusive"]
    rep.require("alias-matrix cases executed", rep.cov.get("family", {}).get("alias", 0), int(0.7 * n_alias))
    rep.require("operator entries with both operands the same cell (hook)", same_cell_events, 50)
