"""C17 - a failure is one well-formed located diagnostic after the output so far."""

import os
import re

from .. import core, failgen as F, harness, judge, progen as G

PROP = "C17"


def build_case(desc):
    if desc[0] == "fail":
        _, seed, kind, position, ctx, depth = desc
        prog, meta = F.generate(seed, kind=kind, position=position, ctx=ctx, depth=depth)
        from .. import printer as P
        lay = P.Layout(crlf=True) if seed % 7 == 0 else (P.Layout(seed=seed, p_blank=0.3, p_comment=0.3) if seed % 7 == 1 else
                                                         (P.Layout(seed=seed, p_zero=0.5, p_under=0.3, p_trail=0.3, p_semis=0.2) if seed % 7 == 2 else None))
        return {"prog": prog, "layout": lay, "tags": ["kind:" + meta["kind"], "pos:" + str(meta["position"]), "ctx:" + meta["ctx"],
                                       "depth:%d" % meta["depth"]] + ["call:" + f for f in meta["forms"]],
                "meta": meta, "check_diag": True, "check_pos": True, "check_atoms": True, "trace": True, "keep_trace": True}
    if desc[0] == "prog":
        prog, g = G.generate(desc[1], p_fail=desc[2])
        from .. import printer as P
        return {"prog": prog, "tags": ["progen"], "layout": P.Layout.random(desc[1]) if desc[1] % 3 == 0 else None, "check_diag": True, "check_pos": True, "check_atoms": True,
                "trace": True, "keep_trace": True}
    raise ValueError(desc)


FRONT_END_ERRORS = [
    "x := &\n", "print(1)\nprint(2\n", "y := \"a\\qb\"\n", "z := 99999999999999999999\n", "if true {\n", "x := \"$\"\n",
    "x := $\"$a\"\n", "x := \"\\xzz\"\n", "fn f( {\n}\n", "print(1) print(2)\n", "\n\n\n   }\n", "x = = 1\n", "é := 1\n",
]
# every operator / punctuation / keyword token where the grammar has no use for it: the message names it in source form
_NO_START = ["->", "===", "!==", "==", "!=", "<=", ">=", "<", ">", "&&", "||", "+", "*", "/", "%", "+=", "-=", "*=", "/=", "%=", ":=", "=",
             ")", "]", "}", ",", ":", ".", "..", "in", "else"]
FRONT_END_ERRORS += ["%s x\n" % t for t in _NO_START] + ["print(1)\nx := (%s)\n" % t for t in _NO_START + ["while", "for", "if", "return", "break", "continue"]] + \
                    ["x := [1 %s]\n" % t for t in ("->", "===", "!==", ":=", "=", "+=", "}", ")", "while", "else")] + \
                    ["x := 1 %s\n" % t for t in (")", "]", "}", ",", ":", ":=", "=", "+=", "else", "in", "fn", "while", "x", "2", "\"s\"", "null", "true")]


def run(rep, tier):
    from .. import scale
    scale.run(rep, PROP, tier)          # size ladders (seedverif/scale.py): the entries that concern this property
    rng = core.rng_for(PROP)
    descs = []
    reps = 1 if tier == "quick" else 12
    for _ in range(reps):
        for kind in F.EXPR_FAIL:
            for position in F.POSITIONS:
                descs.append(("fail", rng.randrange(1 << 40), kind, position, None, None))
        for kind in list(F.STMT_FAIL) + F.JUMPS:
            for ctx in F.CONTEXTS:
                for depth in (0, 1, 3):
                    descs.append(("fail", rng.randrange(1 << 40), kind, None, ctx, depth))
    nrand = 4000 if tier == "quick" else 100000
    for _ in range(nrand):
        descs.append(("fail", rng.randrange(1 << 40), None, None, None, None))
    for _ in range(1500 if tier == "quick" else 30000):
        descs.append(("prog", rng.randrange(1 << 40), rng.choice([0.0, 0.5, 1.0])))
    chains = {}
    wrappers = set()
    leafs = set()

    def on_result(res):
        tr = res.get("trace")
        if tr:
            for ln in tr.split("\n"):
                if ln.startswith("E "):
                    names = ln[2:].split(">")
                    chains[ln[2:]] = chains.get(ln[2:], 0) + 1
                    for nm in names:
                        (wrappers if nm.endswith("Failed") else leafs).add(nm)

    harness.run_cases(rep, "seedverif.checks.c17", descs, {"oracle": "diagnostic format / stack-trace predicate + model"},
                      on_result=on_result, nontrivial=lambda r: not r.get("ok"))
    # lexical and parse errors through the CLI
    obs = core.run_many([{"src": t} for t in FRONT_END_ERRORS])
    for t, o in zip(FRONT_END_ERRORS, obs):
        rep.evaluations += 1
        rep.process_runs += 1
        rep.tally("tags", "front-end-error")
        d = judge.Diag(o.err)
        if o.crashed or o.code != 103 or o.out or not d.ok or d.stack or d.func:
            rep.violation("C17/front-end", "lexical/parse error is not one located line with exit 103: exit %s stderr %r" % (o.code, o.err[:200]),
                          {"src": t, "observed": o.brief()})
        elif judge.internal_identifier(d.msg, t):
            rep.violation("C17/front-end-internal", "message exposes an internal identifier: %r" % d.msg, {"src": t, "observed": o.brief()})
    # the script path is echoed exactly as given, in the header and in every stack-trace line
    from .. import printer as P, model as M
    spell_jobs, spell_meta = [], []
    for i in range(120 if tier == "quick" else 1500):
        prog, meta = F.generate(rng.randrange(1 << 40), depth=rng.choice([1, 2, 3]))
        r = P.render(prog)
        try:
            res = M.run(prog, r)
        except M.ModelLimit:
            continue
        if res.ok:
            continue
        for ap in ("./t.sd", ".//t.sd", "abs", "../" + "x/" * 0 + "t.sd"):
            if ap.startswith("../"):
                continue
            spell_jobs.append({"src": r.text, "argpath": ap})
            spell_meta.append((r.text, len(res.error.stack or [])))
    for (text, nstack), o in zip(spell_meta, core.run_many(spell_jobs)):
        rep.evaluations += 1
        rep.process_runs += 1
        rep.tally("tags", "path-spelling")
        given = o.trace
        d = judge.Diag(o.err, path=given)
        if o.crashed or o.code != 103 or not d.ok:
            rep.violation("C17/path-as-given", "with the script given as %r the diagnostic does not echo that path in its header / stack-trace lines: %r" % (given, o.err[:300]),
                          {"src": text, "argv": given, "observed": o.brief()})
        elif len(d.stack) != nstack:
            rep.violation("C17/path-as-given-stack", "with the script given as %r the stack trace has %d lines, expected %d" % (given, len(d.stack), nstack),
                          {"src": text, "argv": given, "observed": o.brief()})
    # which wrapper variants exist in the source, and which did the workload route errors through?
    declared = set()
    try:
        src = open(os.path.join(core.REPO, "src/eval/error.rs")).read()
        declared = set(re.findall(r"^\s{4}(\w+Failed)\s*\{", src, re.M))
    except OSError:
        pass
    rep.cov["error_wrapper_variants_declared"] = len(declared)
    rep.cov["error_wrapper_variants_seen_in_chains"] = len(wrappers & declared) if declared else len(wrappers)
    rep.cov["error_wrapper_variants_never_seen"] = sorted(declared - wrappers)
    rep.cov["distinct_error_chains"] = len(chains)
    rep.cov["leaf_error_variants_seen"] = sorted(leafs)
    rep.rule = ("failing programs: every error kind x syntactic position of the failing expression, every failing statement kind x statement context x call depth {0,1,3}, "
                "random combinations (call chains through named/anonymous functions, methods, passed/returned/indexed function values), plus generated programs; "
                "non-trivial = the model predicts a failure; distinct by SHA-1 of the source")
    rep.sample({"source": "fn f() { return 1 + null; }; f();", "expected": "t.sd:1:19: in 'f': <message>\\nStacktrace:\\n  t.sd:1:30: in '<root>'; exit 103"})
    rep.sample({"kind": "for_not_iterable", "ctx": "while", "depth": 3, "expected": "stdout = prints before the failure; one header at the iterable; 3 stack lines ending at <root>"})
    rep.sample({"kind": "undefined", "position": "return", "expected": "header `in '<innermost function>':`"})
    rep.assumptions = ["model call stack = active user-function calls; positions from the printer's token map",
                       "errors raised inside interpolation slots: format, exit status, stdout prefix and stack callers are checked, not the slot-relative position or header context (DESIGN section 5)"]
    rep.require("failing programs judged", sum(v for k, v in rep.cov.get("outcome", {}).items() if k.startswith("error")), 5000)
    rep.require("distinct error wrapper chains observed", len(chains), 150)
