"""C01 - whole-program behaviour equals the documented semantics.

(a) model differential: generated programs over the whole feature set; stdout
    bytes and exit class must equal the reference model's.
(b) context embedding (model-free): the same snippet re-run inside
    semantically neutral contexts must print the same and end the same way.
"""

import random

from .. import core, judge, model as M, printer as P, progen as G, sast as A

PROP = "C01"


def contexts():
    V = A.Var

    def bare(s):
        return [A.Block(s)]

    def if_true(s):
        return [A.If([(A.Bool(True), s)], None)]

    def if_else(s):
        return [A.If([(A.Bool(False), [])], s)]

    def else_if(s):
        return [A.If([(A.Bin("==", A.Int(1), A.Int(2)), [A.pr(A.Str("no"))]), (A.Bool(True), s)], [A.pr(A.Str("no"))])]

    def while_once(s):
        return [A.Declare(V("zz_w"), A.Int(0)),
                A.While(A.Bin("<", V("zz_w"), A.Int(1)), [A.OpAssign("+", V("zz_w"), A.Int(1))] + s)]

    def for_once(s):
        return [A.For(V("_"), A.lst(A.Int(0)), s)]

    def named_fn(s):
        return [A.FuncStmt("zz_f", [], False, s), A.ExprStmt(A.call("zz_f"))]

    def anon_fn(s):
        return [A.ExprStmt(A.Call(A.Paren(A.FuncE([], False, s)), []))]

    def method(s):
        return [A.Declare(V("zz_o"), A.obj(("m", A.FuncE([], False, s)))),
                A.ExprStmt(A.Call(A.Prop(V("zz_o"), "m", False), []))]

    return [("block", bare), ("if_true", if_true), ("if_else", if_else), ("else_if", else_if),
            ("while_once", while_once), ("for_once", for_once), ("named_fn", named_fn), ("anon_fn", anon_fn),
            ("method", method)]


CTX = contexts()


def embed(prog, rng, depth):
    names = []
    s = prog
    for lvl in range(depth):
        name, fn = rng.choice(CTX)
        # names introduced by a context must be unique per nesting level
        s = rename_zz(fn(s), lvl)
        names.append(name)
    return s, names


def rename_zz(stmts, lvl):
    for n in A.walk(stmts):
        if isinstance(n, A.Var) and n.name.startswith("zz_") and not n.name[-1].isdigit():
            object.__setattr__(n, "name", n.name + str(lvl))
        elif isinstance(n, A.FuncStmt) and n.name.startswith("zz_") and not n.name[-1].isdigit():
            object.__setattr__(n, "name", n.name + str(lvl))
    return stmts


def work(arg):
    seed, do_embed, do_parity = arg
    out = {"seed": seed, "viol": [], "inconclusive": None, "discard": False, "runs": 0}
    prog, g = G.generate(seed)
    # one program in five is written in a random layout (compact spellings, comments, continuation lines, escapes)
    r = P.render(prog, P.Layout.random(seed) if seed % 5 == 2 else None)
    out["layout"] = "random" if seed % 5 == 2 else "canonical"
    try:
        res = M.run(prog, r)
    except M.ModelLimit as e:
        out["discard"] = str(e)
        return out
    obs = core.run_one({"src": r.text})
    out["runs"] += 1
    out["features"] = sorted(g.features)
    out["stmts"] = res.stmts
    out["lines"] = res.out.count(b"\n")
    out["ok"] = res.ok
    out["kind"] = None if res.ok else res.error.kind
    out["depth"] = res.max_depth
    out["sha"] = core.sha(r.text)
    out["size"] = len(prog)
    mm = judge.outcome_mismatch(obs, res)
    if mm == "timeout":
        if judge.confirm_hang(r.text):
            mm = "does not terminate although the documented semantics terminate"
        else:
            out["inconclusive"] = "timeout"
            return out
    if mm:
        # reproduce once more in isolation before reporting
        obs2 = core.run_one({"src": r.text, "bin": core.BIN_PLAIN})
        mm2 = judge.outcome_mismatch(obs2, res)
        if mm2:
            sig = "model/" + ("crash" if obs.died else ("exit" if obs.code != (0 if res.ok else 103) else "stdout"))
            out["viol"].append((sig, mm, {"src": r.text, "oracle": "model-differential", "seed": seed,
                                          "expected": judge.expected_brief(res), "observed": obs.brief()}))
        else:
            out["inconclusive"] = "mismatch not reproduced on the plain binary"
        return out
    if not res.ok and not obs.err.endswith(b"\n"):
        pass
    if res.ok and obs.err:
        out["viol"].append(("model/stderr-on-success", "successful run wrote to stderr",
                            {"src": r.text, "oracle": "model-differential", "observed": obs.brief()}))
    if do_parity:
        obs2 = core.run_one({"src": r.text, "bin": core.BIN_PLAIN})
        out["runs"] += 1
        out["parity"] = True
        if (obs2.code, obs2.out, obs2.err) != (obs.code, obs.out, obs.err):
            out["inconclusive"] = "hooks-on and hooks-off binaries disagree"
    if do_embed:
        rng = random.Random(seed * 7919 + 1)
        depth = rng.choice([1, 1, 2, 3])
        prog2, g2 = G.generate(seed)          # fresh tree (node identity)
        emb, names = embed(prog2, rng, depth)
        r2 = P.render(emb)
        o2 = core.run_one({"src": r2.text})
        out["runs"] += 1
        out["embed"] = names
        if o2.timeout:
            out["inconclusive"] = "embedded run: timeout"
        elif o2.died or o2.code != obs.code or o2.out != obs.out:
            why = "embedding the program in %s changes its behaviour: exit %s vs %s; %s" % (
                "/".join(names), obs.code, o2.code, judge.first_diff(obs.out, o2.out))
            out["viol"].append(("embed/" + names[-1], why,
                                {"src": r2.text, "oracle": "context-embedding", "contexts": names, "seed": seed,
                                 "expected": {"exit": obs.code, "stdout": obs.out.decode("utf-8", "replace")},
                                 "observed": o2.brief(), "bare_program": r.text}))
    return out


def run(rep, tier):
    from .. import scale
    scale.run(rep, PROP, tier)          # size ladders (seedverif/scale.py): the entries that concern this property
    n = 12000 if tier == "quick" else 200000
    n_embed_every = 4
    base = core.rng_for(PROP).randrange(1 << 40)
    args = [(base + i, i % n_embed_every == 0, i % 50 == 0) for i in range(n)]
    rep.rule = ("random programs over all documented constructs (progen), 5-60 top-level statements plus nested ones; "
                "non-trivial = the reference model executed >= 8 statements and printed >= 2 lines; distinct by SHA-1 of the source text")
    pairs = {}
    for res in core.pool().imap_unordered(work, args, chunksize=16):
        rep.evaluations += 1
        rep.process_runs += res["runs"]
        if res["discard"]:
            rep.discards += 1
            rep.tally("discards", res["discard"])
            continue
        if res["inconclusive"]:
            rep.note_inconclusive(res["inconclusive"], {"seed": res["seed"]})
        for sig, what, case in res["viol"]:
            rep.violation(sig, what, case)
        rep.probe_observations += res.get("lines", 0)
        if res.get("stmts", 0) >= 8 and res.get("lines", 0) >= 2:
            rep.distinct.add(res["sha"])
        rep.tally("outcome", "ok" if res.get("ok") else "error:" + str(res.get("kind")))
        rep.tally("call_depth", str(min(res.get("depth", 0), 10)))
        rep.tally("layout", res.get("layout", "?"))
        rep.tally("program_size", str(res.get("size")))
        for f in res.get("features", []):
            rep.tally("features", f)
        fs = res.get("features", [])
        for i, a in enumerate(fs):
            for b in fs[i + 1:]:
                pairs[(a, b)] = pairs.get((a, b), 0) + 1
        if "embed" in res:
            rep.tally("embedding_contexts", "/".join(res["embed"]))
        if res.get("parity"):
            rep.tally("hooks_off_parity", "compared")
        if len(rep.samples) < 3 and res.get("lines", 0) >= 3 and res.get("size", 99) <= 10:
            prog, g = G.generate(res["seed"])
            rep.sample({"seed": res["seed"], "source": P.render(prog).text, "features": res.get("features")})
    rep.extra["feature_pairs_seen"] = len(pairs)
    rep.extra["excluded_corners"] = ["builtin stored in an object", "rendering of function values",
                                     "&&/|| short-circuit (operands are always evaluated)", "cyclic containers printed/compared"]
    rep.assumptions = ["the reference model (seedverif/model.py) is a faithful reading of docs/features.md",
                       "programs whose model run exceeds the fuel/depth/size budget are discarded, not judged"]
    rep.require("programs judged", rep.evaluations - rep.discards, int(0.9 * n))
    rep.require("non-trivial programs", len(rep.distinct), int(0.5 * n))


def replay(case, src):
    from .. import replay as R
    obs = core.run_one({"src": src})
    exp = case.get("expected", {})
    print(case.get("what"))
    print("observed exit=%s stdout=%r stderr=%r" % (obs.code, obs.out[-500:], obs.err[-500:]))
    bad = obs.crashed or ("exit" in exp and exp["exit"] != obs.code) or \
        ("stdout" in exp and exp["stdout"].encode("utf-8") != obs.out)
    if bad:
        print("VIOLATION property=%s replay=(given)" % PROP)
        return 1
    return 0
