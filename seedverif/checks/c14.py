"""C14 - calls bind arguments to fresh parameters; `this` follows the access path."""

import itertools
import random

from .. import batch, core, sast as A
from .c13 import render

PROP = "C14"
V, I, S = A.Var, A.Int, A.Str

ROUTE_OPS = ["var", "arg", "list", "list_destructure", "for_list", "ret", "assign", "overwrite", "overwrite_elem", "dot0", "idx0", "dot1", "idx1", "nested1", "obj_lit",
             "list_spread", "arg_spread", "rest_param", "concat", "slice_copy", "collect", "list_in_object", "list_in_list"]


def make_probe(desc, k):
    if desc[0] == "arity":
        _, nparams, collect, shape = desc
        # shape: tuple of segment sizes; positive = that many plain args, negative = one spread of that many
        f, t, tl = "f%d" % k, "t%d" % k, "tl%d" % k
        pnames = ["p%d_%d" % (i, k) for i in range(nparams)]
        stmts = [
            A.FuncStmt(t, [V("n")], False, [A.pr(A.Bin("+", S("arg "), A.Call(A.Prop(V("n"), "type", True), []))), A.pr(V("n")), A.Return(V("n"))]),
            A.FuncStmt(tl, [V("n"), V("m")], False, [A.pr(S("spread")), A.pr(V("n")), A.Return(A.Range(V("n"), A.Bin("+", V("n"), V("m"))))]),
            A.FuncStmt(f, [V(n) for n in pnames], collect, [A.pr(S("body"))] + [A.pr(V(n)) for n in pnames] + [A.Return(I(0))]),
        ]
        items = []
        lines = []
        vals = []
        nxt = 100
        for seg in shape:
            if seg > 0:
                for _ in range(seg):
                    items.append((A.call(t, I(nxt)), False))
                    lines += ["arg int", str(nxt)]
                    vals.append(nxt)
                    nxt += 1
            else:
                m = -seg - 1        # -1 => spread of 0 items, -2 => 1 item ...
                items.append((A.call(tl, I(nxt), I(m)), True))
                lines += ["spread", str(nxt)]
                vals += list(range(nxt, nxt + m))
                nxt += max(m, 1)
        stmts.append(A.pr(A.Call(V(f), items)))
        n = len(vals)
        ok = (n >= nparams - 1) if collect else (n == nparams)
        what = "%d params%s, argument segments %r" % (nparams, " + rest" if collect else "", shape)
        if not ok:
            return {"stmts": stmts, "expect": None, "prefix": lines, "tag": "arity_reject", "what": what}
        lines.append("body")
        for i in range(nparams):
            if collect and i == nparams - 1:
                lines += render(vals[nparams - 1:])
            else:
                lines.append(str(vals[i]))
        lines.append("0")
        return {"stmts": stmts, "expect": lines, "tag": "arity_accept", "what": what}
    if desc[0] == "fresh":
        name = desc[1]
        f, x, l = "g%d" % k, "x%d" % k, "l%d" % k
        P = A.pr
        if name == "assign_param":
            stmts = [A.FuncStmt(f, [V("p")], False, [A.Assign(V("p"), I(5)), A.OpAssign("+", V("p"), I(1)), P(V("p"))]),
                     A.Declare(V(x), I(1)), A.ExprStmt(A.call(f, V(x))), P(V(x))]
            lines = ["6", "1"]
        elif name == "destructure_assign_param":
            stmts = [A.FuncStmt(f, [V("p"), V("q")], False, [A.Assign(A.lst(V("p"), V("q")), A.lst(V("q"), V("p"))), P(V("p")), P(V("q"))]),
                     A.Declare(V(x), I(1)), A.Declare(V(l), I(2)), A.ExprStmt(A.call(f, V(x), V(l))), P(V(x)), P(V(l))]
            lines = ["2", "1", "1", "2"]
        elif name == "mutate_list":
            stmts = [A.FuncStmt(f, [V("p")], False, [A.Assign(A.Index(V("p"), I(0)), I(9)), A.Assign(V("p"), A.lst(I(7))), P(V("p"))]),
                     A.Declare(V(l), A.lst(I(1), I(2))), A.ExprStmt(A.call(f, V(l))), P(V(l))]
            lines = render([7]) + render([9, 2])
        elif name == "mutate_object":
            stmts = [A.FuncStmt(f, [V("p")], False, [A.Assign(A.Prop(V("p"), "a", False), I(9)), A.Assign(A.Index(V("p"), S("n")), I(1)), A.Assign(V("p"), A.obj())]),
                     A.Declare(V(l), A.obj(("a", I(1)))), A.ExprStmt(A.call(f, V(l))), P(V(l))]
            lines = render({"a": 9, "n": 1})
        elif name == "same_arg_twice":
            stmts = [A.FuncStmt(f, [V("p"), V("q")], False, [A.Assign(V("p"), I(5)), P(V("q")), A.Return(A.Bin("===", A.lst(), A.lst()))]),
                     A.Declare(V(x), I(1)), P(A.call(f, V(x), V(x))), P(V(x))]
            lines = ["1", "false", "1"]
        elif name == "rest_is_fresh":
            stmts = [A.FuncStmt(f, [V("a"), V("r")], True, [A.Assign(A.Index(V("r"), I(0)), I(99)), P(V("r")), A.Return(V("r"))]),
                     A.Declare(V(l), A.lst(I(1), I(2), I(3))), A.Declare(V(x), A.Call(V(f), [(I(0), False), (V(l), True)])),
                     P(V(l)), P(A.Bin("===", V(x), V(l))), P(A.Bin("==", V(x), A.lst(I(99), I(2), I(3))))]
            lines = render([99, 2, 3]) + render([1, 2, 3]) + ["false", "true"]
        elif name == "rest_wraps_single_list":
            stmts = [A.FuncStmt(f, [V("a"), V("r")], True, [A.Return(V("r"))]),
                     A.Declare(V(l), A.lst(I(1), I(2))), A.Declare(V(x), A.call(f, I(0), V(l))),
                     P(V(x)), P(A.Bin("===", A.Index(V(x), I(0)), V(l))), P(A.Bin("===", V(x), V(l)))]
            lines = render([[1, 2]]) + ["true", "false"]
        elif name == "param_opassign_list":
            stmts = [A.FuncStmt(f, [V("p")], False, [A.OpAssign("+", V("p"), A.lst(I(9))), A.Return(V("p"))]),
                     A.Declare(V(l), A.lst(I(1))), P(A.call(f, V(l))), P(V(l)), P(A.call(f, V(l))), P(V(l))]
            lines = render([1, 9]) + render([1]) + render([1, 9]) + render([1])
        elif name == "lone_rest_spread_is_fresh":
            stmts = [A.FuncStmt(f, [V("r")], True, [A.Assign(A.Index(V("r"), I(0)), I(99)), A.Return(V("r"))]),
                     A.Declare(V(l), A.lst(I(1), I(2))), A.Declare(V(x), A.Call(V(f), [(V(l), True)])),
                     P(V(l)), P(V(x)), P(A.Bin("===", V(x), V(l)))]
            lines = render([1, 2]) + render([99, 2]) + ["false"]
        elif name == "mutate_list_with_call_args_around":
            # the callee works on the caller's container whatever the neighbouring arguments look like
            stmts = [A.FuncStmt("idn%d" % k, [V("v")], False, [A.Return(V("v"))]),
                     A.FuncStmt(f, [V("a"), V("p"), V("b")], False, [A.Assign(A.Index(V("p"), I(0)), I(9)), A.Return(A.Bin("===", V("p"), V(x)))]), A.Declare(V(x), A.lst(I(1), I(2))),
                     P(A.call(f, I(0), V(x), A.call("idn%d" % k, I(1)))), P(V(x)),
                     A.Assign(A.Index(V(x), I(0)), I(1)), P(A.call(f, A.call("idn%d" % k, I(1)), V(x), A.lst(A.call("idn%d" % k, I(2))))), P(V(x)),
                     A.Declare(V(l), A.obj(("k", I(1)))), A.FuncStmt(f + "o", [V("p"), V("b")], False, [A.Assign(A.Prop(V("p"), "k", False), I(9))]), A.ExprStmt(A.call(f + "o", V(l), A.call("idn%d" % k, I(1)))), P(V(l))]
            lines = ["true"] + render([9, 2]) + ["true"] + render([9, 2]) + render({"k": 9})
        elif name == "rest_fresh_per_call":
            stmts = [A.FuncStmt(f, [V("r")], True, [A.Return(V("r"))]),
                     P(A.Bin("===", A.call(f), A.call(f))), P(A.Bin("==", A.call(f), A.lst()))]
            lines = ["false", "true"]
        elif name == "params_fresh_per_call":
            stmts = [A.FuncStmt(f, [V("p")], False, [A.Return(A.FuncE([], False, [A.OpAssign("+", V("p"), I(1)), A.Return(V("p"))]))]),
                     A.Declare(V(x), A.call(f, I(10))), A.Declare(V(l), A.call(f, I(20))), P(A.call(x)), P(A.call(x)), P(A.call(l))]
            lines = ["11", "12", "21"]
        elif name == "arg_expr_once":
            stmts = [A.Declare(V(x), I(0)), A.FuncStmt("inc%d" % k, [], False, [A.OpAssign("+", V(x), I(1)), A.Return(V(x))]),
                     A.FuncStmt(f, [V("p"), V("q")], False, [P(V("p")), P(V("q")), P(V("p"))]),
                     A.ExprStmt(A.call(f, A.call("inc%d" % k), A.call("inc%d" % k))), P(V(x))]
            lines = ["1", "2", "1", "2"]
        else:
            raise ValueError(name)
        return {"stmts": stmts, "expect": lines, "tag": "param_freshness", "what": name}
    if desc[0] == "route":
        _, start, route, callform = desc
        f = "m%d" % k
        o = ["oa%d" % k, "ob%d" % k]
        cur = "c%d" % k
        ident = "id%d" % k
        seedfn = lambda: A.FuncE([], False, [A.Return(A.Bin("+", S("seed of "), A.Prop(V("this"), "id", False)))])
        stmts = [A.Declare(V(o[0]), A.obj(("id", S("A")), ("seedf", seedfn()), ("inner", A.obj(("id", S("inner-of-A")))))),
                 A.Declare(V(o[1]), A.obj(("id", S("B")), ("seedf", seedfn()), ("inner", A.obj(("id", S("inner-of-B")))))),
                 A.FuncStmt(ident, [V("v")], False, [A.Return(V("v"))])]
        body = [A.Return(A.Prop(V("this"), "id", False))]
        if start == "bare_named":
            stmts.append(A.FuncStmt(f, [], False, body))
            stmts.append(A.Declare(V(cur), V(f)))
            prov = None
        elif start == "bare_anon":
            stmts.append(A.Declare(V(cur), A.FuncE([], False, body)))
            prov = None
        else:       # defined inside an object literal, then read from it
            stmts.append(A.Declare(V("oc%d" % k), A.obj(("id", S("C")), ("f", A.FuncE([], False, body)))))
            stmts.append(A.Declare(V(cur), A.Prop(V("oc%d" % k), "f", False)))
            prov = "C"
        n = 0
        for op in route:
            n += 1
            nv = "%s_%d" % (cur, n)
            prev = V(cur if n == 1 else "%s_%d" % (cur, n - 1))
            if op == "var":
                stmts.append(A.Declare(V(nv), prev))
            elif op == "assign":
                stmts += [A.Declare(V(nv), A.Null()), A.Assign(V(nv), prev)]
            elif op == "overwrite":
                # the variable first holds a function read from object A, then is assigned the routed value
                stmts += [A.Declare(V(nv), A.Prop(V(o[0]), "seedf", False)), A.Assign(V(nv), prev)]
            elif op == "overwrite_elem":
                stmts += [A.Declare(V(nv + "_l"), A.lst(A.Prop(V(o[0]), "seedf", False))), A.Assign(A.Index(V(nv + "_l"), I(0)), prev),
                          A.Declare(V(nv), A.Index(V(nv + "_l"), I(0)))]
            elif op == "arg":
                stmts.append(A.Declare(V(nv), A.call(ident, prev)))
            elif op == "list":
                stmts.append(A.Declare(V(nv), A.Index(A.lst(I(0), prev), I(1))))
            # a list that holds the value is copied item by item: the items are the same values, access path included
            elif op == "list_spread":
                stmts.append(A.Declare(V(nv), A.Index(A.ListE([(I(0), False), (A.lst(prev), True)], False), I(1))))
            elif op == "arg_spread":
                stmts.append(A.Declare(V(nv), A.Call(V(ident), [(A.lst(prev), True)])))
            elif op == "rest_param":
                stmts += [A.FuncStmt("rp%d_%d" % (k, n), [V("r")], True, [A.Return(A.Index(V("r"), I(0)))]), A.Declare(V(nv), A.call("rp%d_%d" % (k, n), prev))]
            elif op == "concat":
                stmts.append(A.Declare(V(nv), A.Index(A.Paren(A.Bin("+", A.lst(I(0)), A.lst(prev))), I(1))))
            elif op == "slice_copy":
                stmts.append(A.Declare(V(nv), A.Index(A.RangeIndex(A.lst(I(0), prev), I(1), None), I(0))))
            elif op == "list_in_object":
                # stored in a list that lives in an object: reading the element does not make the object its receiver
                stmts += [A.Assign(A.Prop(V(o[n % 2]), "hooks%d" % n, False), A.lst(I(0), prev)), A.Declare(V(nv), A.Index(A.Prop(V(o[n % 2]), "hooks%d" % n, False), I(1)))]
            elif op == "list_in_list":
                stmts += [A.Declare(V(nv + "_ll"), A.lst(A.lst(prev))), A.Declare(V(nv), A.Index(A.Index(V(nv + "_ll"), I(0)), I(0)))]
            elif op == "collect":
                stmts += [A.Declare(A.ListE([(V("_"), False), (V(nv + "_r"), False)], True), A.lst(I(0), prev)), A.Declare(V(nv), A.Index(V(nv + "_r"), I(0)))]
            elif op == "list_destructure":
                stmts.append(A.Declare(A.lst(V("_"), V(nv)), A.lst(I(0), prev)))
            elif op == "for_list":
                stmts += [A.Declare(V(nv), A.Null()), A.For(A.lst(V("_"), V("fe%d_%d" % (k, n))), A.lst(prev), [A.Assign(V(nv), V("fe%d_%d" % (k, n)))])]
            elif op == "ret":
                stmts += [A.FuncStmt("rt%d_%d" % (k, n), [], False, [A.Return(prev)]), A.Declare(V(nv), A.call("rt%d_%d" % (k, n)))]
            elif op in ("dot0", "dot1", "idx0", "idx1"):
                j = int(op[-1])
                key = "f%d" % n
                stmts.append(A.Assign(A.Prop(V(o[j]), key, False) if n % 2 else A.Index(V(o[j]), S(key)), prev))
                stmts.append(A.Declare(V(nv), A.Prop(V(o[j]), key, False) if op.startswith("dot") else A.Index(V(o[j]), S(key))))
                prov = "AB"[j]
            elif op == "nested1":
                key = "f%d" % n
                stmts.append(A.Assign(A.Prop(A.Prop(V(o[1]), "inner", False), key, False), prev))
                stmts.append(A.Declare(V(nv), A.Prop(A.Index(V(o[1]), S("inner")), key, False)))
                prov = "inner-of-B"
            elif op == "obj_lit":
                stmts.append(A.Declare(V(nv), A.Prop(A.obj(("id", S("lit%d" % n)), ("g", prev)), "g", False)))
                prov = "lit%d" % n
            else:
                raise ValueError(op)
        last = V(cur if n == 0 else "%s_%d" % (cur, n))
        if callform == "direct":
            stmts.append(A.pr(A.Call(last, [])))
        elif callform == "paren":
            stmts.append(A.pr(A.Call(A.Paren(last), [])))
        else:       # call from inside another method: the caller's `this` must not leak in
            stmts += [A.Declare(V("w%d" % k), A.obj(("id", S("W")), ("go", A.FuncE([V("h")], False, [A.Return(A.call("h"))])))),
                      A.pr(A.Call(A.Prop(V("w%d" % k), "go", False), [(last, False)]))]
        what = "function %s, route %s, call %s" % (start, "/".join(route) or "-", callform)
        if prov is None:
            return {"stmts": stmts, "expect": None, "tag": "route_no_this", "what": what, "atoms": ["this"]}
        return {"stmts": stmts, "expect": [prov], "tag": "route_this", "what": what}
    if desc[0] == "special":
        name = desc[1]
        o = "so%d" % k
        P = A.pr
        if name == "nested_fn_sees_enclosing_this":
            stmts = [A.Declare(V(o), A.obj(("id", S("S")), ("m", A.FuncE([], False, [A.Declare(V("g"), A.FuncE([], False, [A.Return(A.Prop(V("this"), "id", False))])), A.Return(A.call("g"))])))),
                     P(A.Call(A.Prop(V(o), "m", False), []))]
            return {"stmts": stmts, "expect": ["S"], "tag": "special", "what": name}
        if name == "this_is_the_object_itself":
            stmts = [A.Declare(V(o), A.obj(("id", S("S")), ("me", A.FuncE([], False, [A.Return(V("this"))])))),
                     P(A.Bin("===", A.Call(A.Prop(V(o), "me", False), []), V(o))),
                     A.ExprStmt(A.Call(A.Prop(V(o), "me", False), [])), P(A.Prop(A.Call(A.Index(V(o), S("me")), []), "id", False))]
            return {"stmts": stmts, "expect": ["true", "S"], "tag": "special", "what": name}
        if name == "method_mutates_this":
            stmts = [A.Declare(V(o), A.obj(("n", I(1)), ("inc", A.FuncE([V("d")], False, [A.OpAssign("+", A.Prop(V("this"), "n", False), V("d")), A.Return(A.Prop(V("this"), "n", False))])))),
                     P(A.Call(A.Prop(V(o), "inc", False), [(I(2), False)])), P(A.Call(A.Index(V(o), S("inc")), [(I(3), False)])), P(A.Prop(V(o), "n", False))]
            return {"stmts": stmts, "expect": ["3", "6", "6"], "tag": "special", "what": name}
        if name == "same_fn_two_objects":
            stmts = [A.Declare(V("sf%d" % k), A.FuncE([], False, [A.Return(A.Prop(V("this"), "id", False))])),
                     A.Declare(V(o), A.ObjectE([A.Pair(S("id"), S("P")), A.Pair(S("f"), V("sf%d" % k))])),
                     A.Declare(V(o + "b"), A.ObjectE([A.Pair(S("id"), S("Q")), A.Pair(S("f"), A.Prop(V(o), "f", False))])),
                     P(A.Call(A.Prop(V(o), "f", False), [])), P(A.Call(A.Prop(V(o + "b"), "f", False), [])), P(A.Call(A.Prop(V(o), "f", False), []))]
            return {"stmts": stmts, "expect": ["P", "Q", "P"], "tag": "special", "what": name}
        if name == "this_outside_any_function":
            return {"stmts": [P(V("this"))], "expect": None, "tag": "special", "what": name, "atoms": ["this"]}
        if name == "callee_not_function":
            return {"stmts": [A.Declare(V(o), A.obj(("f", I(1)))), A.ExprStmt(A.Call(A.Prop(V(o), "f", False), []))], "expect": None, "tag": "special", "what": name}
        if name == "recursion_keeps_this":
            stmts = [A.Declare(V(o), A.obj(("id", S("R")), ("down", A.FuncE([V("n")], False, [
                A.If([(A.Bin("==", V("n"), I(0)), [A.Return(A.Prop(V("this"), "id", False))])], None),
                A.Return(A.Call(A.Prop(V("this"), "down", False), [(A.Bin("-", V("n"), I(1)), False)]))])))),
                P(A.Call(A.Prop(V(o), "down", False), [(I(4), False)]))]
            return {"stmts": stmts, "expect": ["R"], "tag": "special", "what": name}
        if name == "this_is_the_nearest_object":
            # `a.b.f()`: the receiver is the object the function was read from last, however long the path
            stmts = [A.Declare(V(o), A.obj(("id", S("root")), ("f", A.FuncE([], False, [A.Return(A.Prop(V("this"), "id", False))])),
                                            ("b", A.obj(("id", S("mid")), ("f", A.FuncE([], False, [A.Return(A.Prop(V("this"), "id", False))])),
                                                        ("c", A.obj(("id", S("leaf")), ("f", A.FuncE([], False, [A.Return(A.Prop(V("this"), "id", False))])))))))),
                     P(A.Call(A.Prop(V(o), "f", False), [])), P(A.Call(A.Prop(A.Prop(V(o), "b", False), "f", False), [])), P(A.Call(A.Prop(A.Prop(A.Prop(V(o), "b", False), "c", False), "f", False), [])),
                     A.Declare(V(o + "g"), A.Prop(A.Prop(V(o), "b", False), "f", False)), P(A.Call(V(o + "g"), [])),
                     A.Declare(V(o + "h"), A.Prop(A.Prop(A.Prop(V(o), "b", False), "c", False), "f", False)), P(A.Call(V(o + "h"), [])),
                     P(A.Call(A.Prop(A.Index(A.Prop(V(o), "b", False), S("c")), "f", False), [])), P(A.Call(A.Index(A.Prop(A.Prop(V(o), "b", False), "c", False), S("f")), [])),
                     A.Assign(A.Prop(A.Prop(A.Prop(V(o), "b", False), "c", False), "g", False), A.Prop(V(o), "f", False)), P(A.Call(A.Prop(A.Prop(A.Prop(V(o), "b", False), "c", False), "g", False), []))]
            return {"stmts": stmts, "expect": ["root", "mid", "leaf", "mid", "leaf", "leaf", "leaf", "leaf"], "tag": "special", "what": name}
        if name == "callee_evaluated_once":
            # the callee expression runs once per call, whatever it contains
            c = "cc%d" % k
            stmts = [A.Declare(V(c), I(0)),
                     A.FuncStmt("mk%d" % k, [V("t")], False, [A.OpAssign("+", V(c), I(1)), A.Return(A.FuncE([V("x")], False, [A.Return(A.lst(V("t"), V("x")))]))]),
                     A.FuncStmt("ar%d" % k, [V("v")], False, [A.OpAssign("+", V(c), I(100)), A.Return(V("v"))]),
                     P(A.Call(A.call("mk%d" % k, S("a")), [(A.call("ar%d" % k, I(1)), False)])), P(V(c)),
                     A.Declare(V(o), A.obj(("m", A.FuncE([V("x")], False, [A.Return(V("x"))])))), A.FuncStmt("ob%d" % k, [], False, [A.OpAssign("+", V(c), I(1)), A.Return(V(o))]),
                     P(A.Call(A.Prop(A.call("ob%d" % k), "m", False), [(A.call("ar%d" % k, I(2)), False)])), P(V(c)),
                     A.FuncStmt("ky%d" % k, [], False, [A.OpAssign("+", V(c), I(1)), A.Return(S("m"))]), P(A.Call(A.Index(V(o), A.call("ky%d" % k)), [(I(3), False)])), P(V(c)),
                     P(A.Call(A.Index(A.lst(A.call("mk%d" % k, S("b"))), I(0)), [(I(4), False)])), P(V(c))]
            return {"stmts": stmts, "expect": render(["a", 1]) + ["101"] + ["2", "202"] + ["3", "203"] + render(["b", 4]) + ["204"], "tag": "special", "what": name}
        if name.startswith("placeholder_params_"):
            # `_` takes its argument like any parameter (and discards it): the parameters around it keep their own arguments
            n = int(name.rsplit("_", 1)[1])
            exp, stmts = [], []
            j = 0
            for mask in range(1, 1 << n):
                if mask == (1 << n) - 1 and n > 1:
                    continue
                j += 1
                names = ["_" if mask >> i & 1 else "p%d" % i for i in range(n)]
                kept = [nm for nm in names if nm != "_"]
                body = [A.Return(A.lst(*[V(nm) for nm in kept]))]
                f = "ph%d_%d" % (k, j)
                if j % 2:
                    stmts.append(A.FuncStmt(f, [V(nm) for nm in names], False, body))
                else:
                    stmts.append(A.Declare(V(f), A.FuncE([V(nm) for nm in names], False, body)))
                stmts.append(P(A.Bin("==", A.Call(V(f), [(I(10 + i), False) for i in range(n)]), A.lst(*[I(10 + i) for i in range(n) if names[i] != "_"]))))
                exp.append("true")
                stmts.append(P(A.Bin("==", A.Call(V(f), [(A.lst(*[I(20 + i) for i in range(n)]), True)]), A.lst(*[I(20 + i) for i in range(n) if names[i] != "_"]))))
                exp.append("true")
            # with a rest parameter after the placeholders, and a placeholder rest
            stmts += [A.FuncStmt("phr%d" % k, [V("a"), V("_"), V("b"), V("r")], True, [A.Return(A.lst(V("a"), V("b"), V("r")))]),
                      P(A.Bin("==", A.call("phr%d" % k, I(1), I(2), I(3), I(4), I(5)), A.lst(I(1), I(3), A.lst(I(4), I(5))))),
                      A.FuncStmt("phd%d" % k, [V("a"), V("_")], True, [A.Return(V("a"))]), P(A.call("phd%d" % k, I(7), I(8), I(9))),
                      A.FuncStmt("phm%d" % k, [V("_"), V("_"), V("z")], False, [A.Return(V("z"))]), P(A.call("phm%d" % k, I(1), I(2), I(3)))]
            exp += ["true", "7", "3"]
            return {"stmts": stmts, "expect": exp, "tag": "special", "what": name}
    raise ValueError(desc)


FRESH = ["mutate_list_with_call_args_around", "lone_rest_spread_is_fresh", "param_opassign_list", "rest_wraps_single_list", "assign_param", "destructure_assign_param", "mutate_list", "mutate_object", "same_arg_twice", "rest_is_fresh",
         "rest_fresh_per_call", "params_fresh_per_call", "arg_expr_once"]
SPECIAL = ["nested_fn_sees_enclosing_this", "this_is_the_object_itself", "method_mutates_this", "same_fn_two_objects",
           "this_outside_any_function", "callee_not_function", "recursion_keeps_this",
           "this_is_the_nearest_object", "callee_evaluated_once", "placeholder_params_1", "placeholder_params_2", "placeholder_params_3", "placeholder_params_4"]


def shapes(nargs_max, rng, limit):
    """argument-list shapes: tuples of segments (k>0 plain args, -(m+1) a spread of m items)"""
    out = set()
    segs = [1, 2, -1, -2, -3, -4]
    for n in range(0, 4):
        for s in itertools.product(segs, repeat=n):
            total = sum(x if x > 0 else (-x - 1) for x in s)
            if total <= nargs_max:
                out.add(s)
    out = sorted(out)
    if limit and len(out) > limit:
        out = rng.sample(out, limit)
    return out


def run(rep, tier):
    from .. import scale
    scale.run(rep, PROP, tier)          # size ladders (seedverif/scale.py): the entries that concern this property
    rng = core.rng_for(PROP)
    descs = []
    shp = shapes(5, rng, 60 if tier == "quick" else None)
    for nparams in range(0, 5):
        for collect in (False, True):
            if collect and nparams == 0:
                continue
            for s in shp:
                descs.append(("arity", nparams, collect, s))
    for n in FRESH:
        descs.append(("fresh", n))
    for n in SPECIAL:
        descs.append(("special", n))
    maxlen = 3 if tier == "quick" else 4
    routes = [()]
    for n in range(1, maxlen + 1):
        routes += list(itertools.product(ROUTE_OPS, repeat=n))
    if tier == "thorough":
        routes += [tuple(rng.choice(ROUTE_OPS) for _ in range(rng.choice([5, 6]))) for _ in range(6000)]
    for r in routes:
        for start in ("bare_named", "bare_anon", "in_object"):
            descs.append(("route", start, r, rng.choice(["direct", "paren", "from_method"])))
    rng.shuffle(descs)
    batch.run(rep, "seedverif.checks.c14", descs, "C14", oracle="provenance rule from the statement; probe-call order")
    rep.exhaustive = True
    rep.cov["route_words"] = len(routes)
    rep.rule = ("arity matrix: 0-4 parameters with/without ..rest x argument lists built from plain probe calls and spread probe calls (every shape up to 3 segments, <=5 values): order of evaluation, count check, binding; "
                "parameter-freshness scenarios; `this` routes: a function defined bare / anonymous / inside an object, moved through every sequence (length <=%d exhaustive, longer sampled) of {variable, assignment, argument+return, list element, return, "
                "attach+read through . or [] on two objects, nested object, object literal}, then called directly, parenthesised, or from inside another object's method. distinct probes by description; non-trivial = all") % (2 if tier == "quick" else 3)
    rep.sample({"route": "in_object / var / arg / dot1 / list", "expected": "this.id == B (last object it was read from)"})
    rep.sample({"route": "bare_named / var / ret", "expected": "error: this is not defined"})
    rep.sample({"arity": "f(p0, p1, ..rest) called with t(100), tl(101,2).., t(103)", "expected": "arg int,100,spread,101,arg int,103, body, 100, 101, [102,103]"})
    rep.require("probes observed", rep.probe_observations, 4000)
