"""C18 - reported positions are the true line and column of the offending token."""

from .. import core, layoutlib as L

PROP = "C18"


def fold(rep, res, prefix):
    if res.get("sample"):
        rep.actual_sample(res["sample"], limit=2)
    rep.evaluations += res["inputs"]
    rep.process_runs += res["runs"]
    rep.distinct.update(res["shas"])
    rep.inconclusive += res["inconclusive"]
    for k, v in res["tally"].items():
        rep.tally(prefix, k, v)
    for sig, what, case in res["viol"]:
        rep.violation("C18/" + sig, what, case)


def run(rep, tier):
    from .. import scale
    scale.run(rep, PROP, tier)          # size ladders (seedverif/scale.py): the entries that concern this property
    rng = core.rng_for(PROP)
    nshards = 160 if tier == "quick" else 2000
    jobs = [(rng.randrange(1 << 40), 10, 3 if tier == "quick" else 6, "C18") for _ in range(nshards)]
    for res in core.pool().imap_unordered(L.work, jobs, chunksize=1):
        fold(rep, res, "layout_pairs")
    njobs = 96 if tier == "quick" else 1200
    for res in core.pool().imap_unordered(L.inject_work, [(rng.randrange(1 << 40), 25) for _ in range(njobs)], chunksize=1):
        fold(rep, res, "injected")
    # an error inside a `${...}` slot: whatever the exact convention, replacing text before the slot by text with the
    # same number of characters (but other byte lengths) must not move the reported column
    from .. import judge
    groups = []
    for pre in (["ab", "éb", "✓😀", "ßé"], ["", ""], ["xyz =", "xÿ✓ =", "😀😀😀 ="]):
        for slot in ("nope", "1 + null", "f(", "[1][5]"):
            groups.append([('q := 1; print(1)\nprint($"%s${%s} tail")\n' % (p, slot)) for p in pre])
    # ... and with an earlier slot in the same literal: what the earlier slot contains does not matter either, only where the failing one starts
    for slot in ("nope", "1 + null", "f(", "[1][5]"):
        for tail in ("", "é"):
            groups.append([('a := "s"; aaaa := "s"\nprint($"%s%s${%s} tail")\n' % (first, tail, slot)) for first in ("${a}xxxx", "${aaaa}x", "${a+a}xx", "${a}é✓😀ß", "${ a  }x")])
            groups.append([('a := "s"; aaaa := "s"\nprint($"${a}%s%s${aaaa}${%s}")\n' % (tail, mid, slot)) for mid in ("${a}xxxx", "${aaaa}x", "${a+a}xx")])
    for grp in groups:
        obs = core.run_many([{"src": t} for t in grp])
        rep.evaluations += len(grp)
        rep.process_runs += len(grp)
        rep.tally("injected", "slot_error_column", len(grp))
        cols = []
        for t, o in zip(grp, obs):
            d = judge.Diag(o.err)
            if o.crashed or o.code != 103 or not d.ok:
                rep.violation("C18/slot-error-shape", "slot error is not a clean located diagnostic: %r" % o.err[:160], {"src": t, "observed": o.brief()})
                cols = None
                break
            cols.append(d.pos)
        if cols and len(set(cols)) != 1:
            rep.violation("C18/slot-column-counts-bytes", "the column of an error inside an interpolation slot changes when preceding text is replaced by text with the same number of characters: %s" % cols,
                          {"src": grp[1], "oracle": "character-count invariance", "variants": grp})
    # lexical errors inside string literals (also on the second and later line of a multi-line literal): position of the offending character
    from . import c15
    bad = c15.bad_literals()
    for (t, pos, kind), o in zip(bad, core.run_many([{"src": t} for t, _, _ in bad])):
        rep.evaluations += 1
        rep.process_runs += 1
        rep.tally("injected", "malformed_literal")
        d = judge.Diag(o.err)
        if o.died or o.code != 103 or not d.ok:
            rep.violation("C18/malformed-literal-shape", "malformed literal is not rejected with one located line: %r -> exit %s %r" % (t, o.code, o.err[:120]), {"src": t, "observed": o.brief()})
        elif d.pos != pos:
            rep.violation("C18/malformed-literal-position", "malformed literal %r reported at %s, the offending character is at %s" % (t, d.pos, pos), {"src": t, "observed": o.brief()})
    pinned = {k for k in rep.cov.get("layout_pairs", {}) if k.startswith("pinned:")}
    rep.rule = ("generated programs under random layouts of everything preceding each token (blank lines, tabs, CR LF, comments with multi-byte text, multi-line and hex-escaped string literals, continuation breaks): "
                "(1) every token start reported by the lexer hook and every node position in the AST dump equals where the printer wrote the token; (2) runtime diagnostics of the pinned categories "
                "(undefined name, operator errors, call errors, stack-trace lines) equal the token map under each layout and move with the token between layouts; "
                "(3) injected illegal characters / impossible tokens are reported exactly where they were inserted. distinct by SHA-1; non-trivial = layout differs from canonical or a token was injected")
    rep.extra["pinned_categories_seen"] = sorted(pinned)
    rep.sample({"program": "a := 1\n\t\t# é comment\nprint(a + \"s\")", "expected": "3:9 (the `+`), columns count characters, tab = 1"})
    rep.sample({"injected": "`&` before the 17th token of a re-laid-out program", "expected": "lexical error at that token's line:col"})
    rep.sample({"stack": "call chain of depth 3 under CRLF + comments", "expected": "each stack line = first token of the call expression"})
    rep.require("pinned diagnostic categories observed", len(pinned), 6)
    rep.require("injected lexical errors", rep.cov.get("injected", {}).get("lexical", 0), 500)
    rep.require("injected parse errors", rep.cov.get("injected", {}).get("parse", 0), 200)
