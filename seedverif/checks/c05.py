"""C05 - containers are shared by reference; building operations return fresh ones.

Histories of alias / build / mutate operations over three variables; after every
step the script prints all variables and the full identity matrix over the
variables and their first-level elements.  Oracle: the model heap (Python object
identity), compared line by line, so the witness is the first step that differs."""

import itertools
import random

from .. import core, harness, model as M, sast as A

PROP = "C05"
V, I, S = A.Var, A.Int, A.Str
VARS = ["a", "b", "c"]


def prelude(kind):
    P = A.pr
    same = A.FuncStmt("same", [V("p"), V("q")], False, [
        A.If([(A.Bin("!=", A.Call(A.Prop(V("p"), "type", True), []), A.Call(A.Prop(V("q"), "type", True), [])), [A.Return(S("-"))])], None),
        A.If([(A.Bin("||", A.Bin("==", A.Call(A.Prop(V("p"), "type", True), []), S("list")), A.Bin("==", A.Call(A.Prop(V("p"), "type", True), []), S("object"))),
               # `===` and `!==` must agree with each other ("!" / "?" mark a disagreement)
               [A.If([(A.Bin("===", V("p"), V("q")), [A.If([(A.Bin("!==", V("p"), V("q")), [A.Return(S("!"))])], None), A.Return(S("="))])], None),
                A.If([(A.Bin("!==", V("p"), V("q")), [A.Return(S("x"))])], None), A.Return(S("?"))])], None),
        A.Return(S("-"))])
    if kind == "list":
        elems = A.Bin("+", A.Bin("+", A.Bin("+", A.lst(V("a"), V("b"), V("c")), V("a")), V("b")), V("c"))
        init = [A.Declare(V("a"), A.lst(I(1), I(2))), A.Declare(V("b"), A.lst(I(3), I(4))), A.Declare(V("c"), A.lst(A.lst(I(5)), I(6)))]
    else:
        def vals(o):
            return A.lst(A.Prop(V(o), "k", False), A.Prop(V(o), "m", False))
        elems = A.Bin("+", A.Bin("+", A.Bin("+", A.lst(V("a"), V("b"), V("c")), vals("a")), vals("b")), vals("c"))
        init = [A.Declare(V("a"), A.obj(("k", I(1)), ("m", I(2)))), A.Declare(V("b"), A.obj(("k", I(3)), ("m", I(4)))),
                A.Declare(V("c"), A.obj(("k", A.obj(("k", I(5)), ("m", I(0)))), ("m", I(6))))]
    observe = A.FuncStmt("observe", [], False, [
        P(V("a")), P(V("b")), P(V("c")),
        A.Declare(V("cells"), elems),
        A.For(A.lst(V("i"), V("p")), V("cells"), [
            A.Declare(V("row"), S("")),
            A.For(A.lst(V("j"), V("q")), V("cells"), [A.OpAssign("+", V("row"), A.call("same", V("p"), V("q")))]),
            P(V("row"))])])
    helpers = [
        same,
        A.FuncStmt("ident", [V("v")], False, [A.Return(V("v"))]),
        A.FuncStmt("mklit", [], False, [A.Return(A.lst(A.lst(I(0)), I(0)) if kind == "list" else A.obj(("k", A.obj(("k", I(0)), ("m", I(0)))), ("m", I(0))))]),
        A.FuncStmt("mk", [V("v")], False, [A.Return(A.FuncE([], False, [A.Return(V("v"))]))]),
        A.FuncStmt("setfirst", [V("t"), V("v")], False, [A.Assign(A.Index(V("t"), I(0)) if kind == "list" else A.Prop(V("t"), "k", False), V("v")), A.Assign(V("t"), A.Null())]),
        A.FuncStmt("rebuild", [V("t")], False, [A.OpAssign("+", V("t"), A.lst(I(0))) if kind == "list" else A.Assign(V("t"), A.ObjectE([A.Single(V("t"), True, False)])), A.Return(V("t"))]),
    ]
    return init + helpers + [observe]


def ops(kind):
    """name -> fn(X, Y, v) -> statements"""
    L = kind == "list"
    first = (lambda x: A.Index(V(x), I(0))) if L else (lambda x: A.Prop(V(x), "k", False))
    second = (lambda x: A.Index(V(x), I(1))) if L else (lambda x: A.Index(V(x), S("m")))
    wrap = (lambda e: A.lst(e, I(0))) if L else (lambda e: A.obj(("k", e), ("m", I(0))))
    O = {}
    O["alias"] = lambda X, Y, v: [A.Assign(V(X), V(Y))]
    O["alias_via_arg_return"] = lambda X, Y, v: [A.Assign(V(X), A.call("ident", V(Y)))]
    O["alias_via_closure"] = lambda X, Y, v: [A.Assign(V(X), A.Call(A.call("mk", V(Y)), []))]
    O["store_in_new_container"] = lambda X, Y, v: [A.Assign(V(X), wrap(V(Y)))]
    O["store_in_element"] = lambda X, Y, v: [A.Assign(first(X), V(Y))]
    O["store_second"] = lambda X, Y, v: [A.Assign(second(X), V(Y))]
    O["take_element"] = lambda X, Y, v: [A.Assign(V(X), wrap(first(Y)))]
    O["fresh_literal"] = lambda X, Y, v: [A.Assign(V(X), wrap(wrap(I(v))))]
    other = lambda X: VARS[(VARS.index(X) + 1) % 3]
    # the same literal expression evaluated twice (two calls; two loop iterations) builds two containers
    O["literal_site_twice_calls"] = lambda X, Y, v: [A.Assign(V(X), A.call("mklit")), A.Assign(V(other(X)), A.call("mklit"))]
    O["literal_site_twice_loop"] = lambda X, Y, v: [A.Declare(V("ls%d" % v), A.lst()),
                                                    A.For(V("_"), A.lst(I(1), I(2)), [A.OpAssign("+", V("ls%d" % v), A.lst(wrap(wrap(I(0)))))]),
                                                    A.Assign(V(X), A.Index(V("ls%d" % v), I(0))), A.Assign(V(other(X)), A.Index(V("ls%d" % v), I(1)))]
    O["copy_spread"] = lambda X, Y, v: [A.Assign(V(X), A.ListE([(V(Y), True)], False) if L else A.ObjectE([A.Single(V(Y), True, False)]))]
    O["copy_in_callee"] = lambda X, Y, v: [A.Assign(V(X), A.call("rebuild", V(Y)))]
    O["mutate_first"] = lambda X, Y, v: [A.Assign(first(X), I(v))]
    O["mutate_in_callee"] = lambda X, Y, v: [A.ExprStmt(A.call("setfirst", V(X), I(v)))]
    O["opassign_second"] = lambda X, Y, v: [A.OpAssign("+", second(X), I(100))]
    O["mutate_nested"] = lambda X, Y, v: [A.Assign(A.Index(first(X), I(0)) if L else A.Prop(first(X), "k", False), I(v))]
    O["destructure_alias"] = lambda X, Y, v: [A.Assign(A.lst(V(X), V("_")) if L else A.ObjectE([A.Pair(S("k"), V(X)), A.Pair(S("m"), V("_"))]), wrap(V(Y)))]
    O["slot_concat"] = lambda X, Y, v: [A.OpAssign("+", first(X), A.lst(I(v)))]
    O["slot_concat_alias"] = lambda X, Y, v: [A.Assign(first(X), A.lst(I(v))), A.Assign(second(Y), first(X)), A.OpAssign("+", first(X), A.lst(I(v + 1)))]
    O["keep_pairs"] = lambda X, Y, v: [A.Declare(V("kp%d" % v), A.lst()), A.For(V("pe"), V(Y), [A.OpAssign("+", V("kp%d" % v), A.lst(V("pe")))]),
                                       A.Assign(V(X), A.lst(A.Index(V("kp%d" % v), I(0)), A.Index(V("kp%d" % v), I(1)))) if L else
                                       A.Assign(V(X), A.obj(("k", A.Index(V("kp%d" % v), I(0))), ("m", A.Index(V("kp%d" % v), I(1)))))]
    if L:
        O["copy_concat"] = lambda X, Y, v: [A.Assign(V(X), A.Bin("+", V(Y), A.lst()))]
        O["copy_range_all"] = lambda X, Y, v: [A.Assign(V(X), A.RangeIndex(V(Y), None, None))]
        O["copy_range_from0"] = lambda X, Y, v: [A.Assign(V(X), A.RangeIndex(V(Y), I(0), None))]
        O["collect_all"] = lambda X, Y, v: [A.Assign(A.ListE([(V(X), False)], True), V(Y))]
        O["collect_tail"] = lambda X, Y, v: [A.Assign(A.ListE([(V("_"), False), (V(X), False)], True), V(Y))]
        O["append_rebind"] = lambda X, Y, v: [A.OpAssign("+", V(X), A.lst(I(v)))]
        O["concat_self"] = lambda X, Y, v: [A.OpAssign("+", V(X), V(Y))]
        O["two_empty_slices"] = lambda X, Y, v: [A.Assign(V(X), A.lst(A.RangeIndex(V(Y), I(0), I(0)), A.RangeIndex(V(Y), I(1), I(1))))]
        O["empty_rest_collects"] = lambda X, Y, v: [A.Assign(A.ListE([(V("_"), False), (V("_"), False), (V("er%d" % v), False)], True), A.lst(I(1), I(2))) if False else
                                                    A.Declare(A.ListE([(V("era%d" % v), False)], True), A.lst()), A.Declare(A.ListE([(V("erb%d" % v), False)], True), A.lst()),
                                                    A.Assign(V(X), A.lst(V("era%d" % v), V("erb%d" % v)))]
        O["range_op"] = lambda X, Y, v: [A.Assign(V(X), A.Range(I(0), I(2)))]
        O["range_assign"] = lambda X, Y, v: [A.Assign(A.RangeIndex(V(X), I(0), I(1)), A.lst(I(v)))]
        O["range_assign_from_alias"] = lambda X, Y, v: [A.Assign(A.RangeIndex(V(X), None, I(1)), A.RangeIndex(V(Y), I(0), I(1)))]
        O["for_pair_value"] = lambda X, Y, v: [A.For(A.lst(V("_"), V("e")), A.lst(V(Y)), [A.Assign(V(X), V("e"))])]
    else:
        O["collect_rest"] = lambda X, Y, v: [A.Assign(A.ObjectE([A.Single(V(X), False, True)]), V(Y))]
        O["collect_rest_after_k"] = lambda X, Y, v: [A.Assign(A.ObjectE([A.Pair(S("k"), V("_")), A.Single(V(X), False, True)]), V(Y))]
        O["insert_key"] = lambda X, Y, v: [A.Assign(A.Index(V(X), S("n")), V(Y))]
        O["literal_later_wins"] = lambda X, Y, v: [A.Assign(V(X), A.ObjectE([A.Single(V(Y), True, False), A.Pair(S("k"), I(v))]))]
        O["for_pair_value"] = lambda X, Y, v: [A.For(A.lst(V("_"), V("e")), A.obj(("z", V(Y))), [A.Assign(V(X), V("e"))])]
    return O


OPS = {"list": ops("list"), "object": ops("object")}


def build_case(desc):
    if desc[0] == "hist":
        _, kind, steps = desc
        prog = prelude(kind) + [A.ExprStmt(A.call("observe"))]
        for n, (op, X, Y) in enumerate(steps):
            prog.append(A.pr(S("step %d: %s %s %s" % (n, op, X, Y))))
            prog += OPS[kind][op](X, Y, 70 + n)
            prog.append(A.ExprStmt(A.call("observe")))
        return {"prog": prog, "tags": ["hist:%s:%d" % (kind, len(steps))] + ["op:" + s[0] for s in steps], "model_kw": {"fuel": 60000},
                "post": "post_shape", "meta": {"kind": kind}}
    if desc[0] == "value":
        name = desc[1]
        P = A.pr
        cases = {
            "int_copy": [A.Declare(V("n"), I(1)), A.Declare(V("m"), V("n")), A.OpAssign("+", V("m"), I(1)), P(V("n")), P(V("m"))],
            "string_copy": [A.Declare(V("s"), S("a")), A.Declare(V("t"), V("s")), A.OpAssign("+", V("t"), S("b")), P(V("s")), P(V("t"))],
            "int_in_list": [A.Declare(V("n"), I(1)), A.Declare(V("xs"), A.lst(V("n"))), A.OpAssign("+", A.Index(V("xs"), I(0)), I(5)), P(V("n")), P(V("xs"))],
            "int_param": [A.Declare(V("n"), I(1)), A.FuncStmt("bump", [V("p")], False, [A.OpAssign("*", V("p"), I(10)), A.Return(V("p"))]), P(A.call("bump", V("n"))), P(V("n"))],
            "string_in_object": [A.Declare(V("s"), S("a")), A.Declare(V("o"), A.obj(("k", V("s")))), A.OpAssign("+", A.Prop(V("o"), "k", False), S("z")), P(V("s")), P(V("o"))],
            "bool_null": [A.Declare(V("t"), A.Bool(True)), A.Declare(V("u"), V("t")), A.Assign(V("u"), A.Null()), P(V("t")), P(V("u"))],
            "string_index_copy": [A.Declare(V("s"), S("abc")), A.Declare(V("c"), A.Index(V("s"), I(1))), A.OpAssign("+", V("c"), S("!")), P(V("s")), P(V("c"))],
            "list_of_strings_range_assign": [A.Declare(V("xs"), A.lst(S("p"), S("q"))), A.Declare(V("s"), S("xy")), A.Assign(A.RangeIndex(V("xs"), None, None), V("s")), A.OpAssign("+", A.Index(V("xs"), I(0)), S("!")), P(V("s")), P(V("xs"))],
            "closure_counter_vs_copy": [A.Declare(V("n"), I(0)), A.Declare(V("m"), V("n")), A.FuncStmt("inc", [], False, [A.OpAssign("+", V("n"), I(1))]), A.ExprStmt(A.call("inc")), A.ExprStmt(A.call("inc")), P(V("n")), P(V("m"))],
        }
        return {"prog": cases[name], "tags": ["value:" + name]}
    raise ValueError(desc)


VALUE_CASES = ["int_copy", "string_copy", "int_in_list", "int_param", "string_in_object", "bool_null", "string_index_copy",
               "list_of_strings_range_assign", "closure_counter_vs_copy"]


def post_shape(case, r, res, obs):
    return []


def shape_of(res):
    g = res.global_scope
    return M.heap_shape([g[n][0].v for n in VARS if n in g])


def run(rep, tier):
    from .. import scale
    scale.run(rep, PROP, tier)          # size ladders (seedverif/scale.py): the entries that concern this property
    rng = core.rng_for(PROP)
    descs = []
    for kind in ("list", "object"):
        names = list(OPS[kind])
        steps1 = [(op, X, Y) for op in names for X in VARS for Y in VARS if X != Y or op in ("concat_self", "store_in_element", "mutate_first", "append_rebind", "copy_spread")]
        for s in steps1:
            descs.append(("hist", kind, (s,)))
        pairs = list(itertools.product(steps1, repeat=2))
        if tier == "quick":
            pairs = rng.sample(pairs, 1500)
        elif len(pairs) > 60000:
            pairs = rng.sample(pairs, 60000)
        for p in pairs:
            descs.append(("hist", kind, p))
        for _ in range(1200 if tier == "quick" else 60000):
            n = rng.choice([3, 4, 5, 6] if tier == "quick" else [3, 4, 5, 6, 8, 12, 25])
            descs.append(("hist", kind, tuple(rng.choice(steps1) for _ in range(n))))
    for name in VALUE_CASES:
        descs.append(("value", name))
    # distinct heap shapes: recompute with the model in the parent for a sample (cheap) is avoided;
    # workers report events, shapes are recomputed below from a deterministic re-run of the model only
    shapes = set()

    def on_result(res):
        pass

    harness.run_cases(rep, "seedverif.checks.c05", descs, {"oracle": "model heap (object identity) per step"}, on_result=on_result)
    # measure the number of distinct heap shapes reached (model replay, parent process, sample)
    from .. import printer as P
    sample = [d for d in descs if d[0] == "hist"]
    rng.shuffle(sample)
    for d in sample[:1500]:
        case = build_case(d)
        try:
            r = P.render(case["prog"])
            res = M.run(case["prog"], r, fuel=60000)
            shapes.add(shape_of(res))
        except M.ModelLimit:
            pass
    rep.cov["distinct_heap_shapes_in_sample_of_1500"] = len(shapes)
    rep.exhaustive = True
    rep.rule = ("histories over variables a, b, c (lists; and objects) of alias operations (assignment, argument+return, closure capture, store into a new container / an element / a key, destructuring, for-pair value), "
                "building operations (spread, +, range reads, collect, +=, rebuild in callee, `..`, literals) and mutations (element, nested element, range, op-assign, inside a callee): every single step and pairs of steps exhaustively (sampled in quick), "
                "random histories up to length %d; after each step all variables and the identity matrix over variables and first-level elements are printed. distinct by SHA-1; non-trivial = at least one step (all)") % (6 if tier == "quick" else 25)
    rep.sample({"history": "store_in_new_container b a ; mutate_first a", "expected": "b[0] shows the mutation; b[0] === a; b !== a"})
    rep.sample({"history": "copy_range_all b a ; mutate_first a", "expected": "b unchanged; b !== a; elements shared"})
    rep.sample({"value": "int_in_list", "expected": "n stays 1"})
    rep.require("histories judged", rep.evaluations - rep.discards, 2500)
    rep.require("distinct heap shapes in the sample", len(shapes), 150)
