"""Generator of programs that fail: every user-reachable error kind, raised at
many syntactic positions, inside statement contexts and call chains.

What the failing run must look like is decided by the reference model; this
module only builds the programs (and says which kind it aimed for)."""

import random

from . import sast as A

V = A.Var
I = A.Int
S = A.Str


def _lst(*xs):
    return A.lst(*xs)


def expr_failures():
    """name -> thunk producing a fresh failing expression (needs prelude names:
    xs (list [1,2,3]), o (object {"a":1}), f0 (fn of 0 params), fr (fn (a, ..r)), n (int 7), s (string "str"))."""
    E = {}
    E["undefined"] = lambda: V("nope")
    E["op_types_sum"] = lambda: A.Bin("+", I(1), S("s"))
    E["op_types_and"] = lambda: A.Bin("&&", A.Bool(True), V("n"))
    E["op_types_sub_lists"] = lambda: A.Bin("-", V("xs"), V("xs"))
    E["op_types_lt_null"] = lambda: A.Bin("<", A.Null(), I(1))
    E["op_types_refeq"] = lambda: A.Bin("===", V("o"), V("xs"))
    E["op_types_refeq_int"] = lambda: A.Bin("!==", V("n"), V("n"))
    E["eq_types"] = lambda: A.Bin("==", V("n"), S("7"))
    E["eq_types_nested"] = lambda: A.Bin("!=", _lst(I(1), _lst(I(2))), _lst(I(1), _lst(S("2"))))
    E["eq_funcs"] = lambda: A.Bin("==", V("f0"), V("f0"))
    E["overflow_add"] = lambda: A.Bin("+", I(2 ** 63 - 1), V("n"))
    E["overflow_mul"] = lambda: A.Bin("*", I(2 ** 62), I(2))
    E["div_zero"] = lambda: A.Bin("/", V("n"), A.Bin("-", V("n"), V("n")))
    E["mod_zero"] = lambda: A.Bin("%", I(5), I(0))
    E["call_int"] = lambda: A.Call(V("n"), [])
    E["call_str"] = lambda: A.Call(S("s"), [(I(1), False)])
    E["call_null"] = lambda: A.Call(A.Paren(A.Null()), [])
    E["arity"] = lambda: A.Call(V("f0"), [(I(1), False)])
    E["arity_spread"] = lambda: A.Call(V("f0"), [(V("xs"), True)])
    E["too_few"] = lambda: A.Call(V("fr"), [])
    E["print_noargs"] = lambda: A.Call(V("print"), [])
    E["print_two"] = lambda: A.Call(V("print"), [(I(1), False), (I(2), False)])
    E["len_args"] = lambda: A.Call(A.Prop(V("s"), "len", True), [(I(1), False)])
    E["type_args"] = lambda: A.Call(A.Prop(V("n"), "type", True), [(I(1), False)])
    E["list_oob"] = lambda: A.Index(V("xs"), I(3))
    E["str_oob"] = lambda: A.Index(V("s"), I(9))
    E["neg_index"] = lambda: A.Index(V("xs"), I(-1))
    E["index_type"] = lambda: A.Index(V("xs"), S("a"))
    E["not_indexable"] = lambda: A.Index(V("n"), I(0))
    E["prop_missing_idx"] = lambda: A.Index(V("o"), S("zz"))
    E["prop_missing_dot"] = lambda: A.Prop(V("o"), "zz", False)
    E["key_type"] = lambda: A.Index(V("o"), I(1))
    E["range_oob_list"] = lambda: A.RangeIndex(V("xs"), I(1), I(9))
    E["range_oob_str"] = lambda: A.RangeIndex(V("s"), I(2), I(1))
    E["range_neg"] = lambda: A.RangeIndex(V("xs"), I(-1), None)
    E["not_range_indexable"] = lambda: A.RangeIndex(V("o"), None, I(1))
    E["range_start_type"] = lambda: A.Range(S("a"), I(2))
    E["range_end_type"] = lambda: A.Range(I(1), A.Null())
    E["collect_outside_list"] = lambda: A.ListE([(I(1), False), (V("xs"), False)], True)
    E["collect_outside_obj"] = lambda: A.ObjectE([A.Single(V("o"), False, True)])
    E["spread_non_list"] = lambda: A.ListE([(V("n"), True)], False)
    E["spread_non_list_arg"] = lambda: A.Call(V("fr"), [(I(1), False), (V("o"), True)])
    E["spread_non_obj"] = lambda: A.ObjectE([A.Single(V("xs"), True, False)])
    E["shorthand_not_var"] = lambda: A.ObjectE([A.Single(I(1), False, False)])
    E["prop_name_type"] = lambda: A.ObjectE([A.Pair(V("n"), I(2))])
    E["type_fn_null"] = lambda: A.Call(A.Prop(A.Null(), "type", True), [])
    E["type_fn_missing"] = lambda: A.Call(A.Prop(V("n"), "len", True), [])
    E["prop_on_int"] = lambda: A.Prop(V("n"), "a", False)
    E["interp_non_string"] = lambda: A.IStr(["v=", V("n")])
    E["interp_slot_error"] = lambda: A.IStr(["é ", V("nope"), "!"])
    E["interp_slot_parse"] = lambda: A.IStr(["a", A.RawSlot("1 +"), "b"])
    E["print_invalid_utf8"] = lambda: A.Call(V("print"), [(A.Index(S("é"), I(0)), False)])
    E["print_invalid_utf8_nested"] = lambda: A.Call(V("print"), [(_lst(I(1), S("ok"), _lst(A.Index(S("aé"), I(1)))), False)])
    E["print_invalid_utf8_in_object"] = lambda: A.Call(V("print"), [(A.obj(("a", I(1)), ("z", A.Index(S("é"), I(0)))), False)])
    E["len_invalid_utf8"] = lambda: A.Call(A.Prop(A.Paren(A.Index(S("é"), I(1))), "len", True), [])
    return E


EXPR_FAIL = expr_failures()


def stmt_failures():
    """name -> thunk producing a list of statements whose last one fails."""
    F = {}
    F["already_in_scope"] = lambda: [A.Declare(V("dup"), I(1)), A.Declare(V("dup"), I(2))]
    F["already_in_scope_fn"] = lambda: [A.Declare(V("dupf"), I(1)), A.FuncStmt("dupf", [], False, [])]
    F["already_in_scope_pattern"] = lambda: [A.Declare(V("dupp"), I(1)), A.Declare(_lst(V("other"), V("dupp")), _lst(I(1), I(2)))]
    F["undefined_assign"] = lambda: [A.Assign(V("nope"), I(1))]
    F["undefined_opassign"] = lambda: [A.OpAssign("+", V("nope"), I(1))]
    F["opassign_types"] = lambda: [A.Declare(V("oa"), I(1)), A.OpAssign("-", V("oa"), S("s"))]
    F["opassign_overflow_elem"] = lambda: [A.Declare(V("ol"), _lst(I(2 ** 62))), A.OpAssign("*", A.Index(V("ol"), I(0)), I(4))]
    F["bind_literal"] = lambda: [A.Declare(I(1), I(2))]
    F["bind_call"] = lambda: [A.Assign(A.Call(V("f0"), []), I(1))]
    F["bind_binop"] = lambda: [A.Declare(A.Bin("+", V("n"), I(1)), I(2))]
    F["destructure_mismatch"] = lambda: [A.Declare(_lst(V("da"), V("db")), _lst(I(1)))]
    F["destructure_non_list"] = lambda: [A.Declare(_lst(V("da")), V("n"))]
    F["collect_too_few"] = lambda: [A.Declare(A.ListE([(V("da"), False), (V("db"), False), (V("dr"), False)], True), _lst(I(1)))]
    F["destructure_non_object"] = lambda: [A.Declare(A.ObjectE([A.Single(V("a"), False, False)]), V("xs"))]
    F["pattern_prop_missing"] = lambda: [A.Declare(A.ObjectE([A.Single(V("zz"), False, False)]), V("o"))]
    F["pattern_key_missing"] = lambda: [A.Declare(A.ObjectE([A.Pair(S("zz"), V("q"))]), V("o"))]
    F["already_in_binding"] = lambda: [A.Declare(_lst(V("da"), V("da")), _lst(I(1), I(2)))]
    F["spread_in_list_pattern"] = lambda: [A.Declare(A.ListE([(V("da"), True)], False), _lst(I(1)))]
    F["spread_in_obj_pattern"] = lambda: [A.Declare(A.ObjectE([A.Single(V("a"), True, False)]), V("o"))]
    F["obj_collect_not_last"] = lambda: [A.Declare(A.ObjectE([A.Single(V("r"), False, True), A.Single(V("a"), False, False)]), V("o"))]
    F["op_on_range_index"] = lambda: [A.OpAssign("+", A.RangeIndex(V("xs"), I(0), I(1)), _lst(I(1)))]
    F["op_on_list_pattern"] = lambda: [A.OpAssign("+", _lst(V("n")), _lst(I(1)))]
    F["op_on_obj_pattern"] = lambda: [A.OpAssign("+", A.ObjectE([A.Single(V("n"), False, False)]), V("o"))]
    F["op_undefined_prop"] = lambda: [A.OpAssign("+", A.Prop(V("o"), "zz", False), I(1))]
    F["op_undefined_key"] = lambda: [A.OpAssign("+", A.Index(V("o"), S("zz")), I(1))]
    F["assign_type_prop"] = lambda: [A.Assign(A.Prop(V("n"), "type", True), I(1))]
    F["assign_type_prop_object"] = lambda: [A.Assign(A.Prop(V("o"), "a", True), I(1))]
    F["opassign_type_prop_object"] = lambda: [A.OpAssign("+", A.Prop(V("o"), "a", True), I(1))]
    F["index_assign_non_container"] = lambda: [A.Assign(A.Index(V("n"), I(0)), I(1))]
    F["index_assign_oob"] = lambda: [A.Assign(A.Index(V("xs"), I(3)), I(1))]
    F["prop_assign_non_object"] = lambda: [A.Assign(A.Prop(V("xs"), "a", False), I(1))]
    F["range_assign_non_list"] = lambda: [A.Assign(A.RangeIndex(V("s"), I(0), I(1)), _lst(I(1)))]
    F["range_assign_rhs"] = lambda: [A.Assign(A.RangeIndex(V("xs"), I(0), I(1)), V("n"))]
    F["range_assign_start"] = lambda: [A.Assign(A.RangeIndex(V("xs"), I(4), None), _lst())]
    F["range_assign_empty"] = lambda: [A.Assign(A.RangeIndex(V("xs"), I(2), I(2)), _lst())]
    F["range_assign_end"] = lambda: [A.Assign(A.RangeIndex(V("xs"), I(1), I(5)), _lst(I(1)))]
    F["range_assign_count"] = lambda: [A.Assign(A.RangeIndex(V("xs"), I(0), I(2)), _lst(I(1)))]
    F["opassign_types_key"] = lambda: [A.OpAssign("+", A.Index(V("o"), S("a")), S("s"))]
    F["opassign_types_prop"] = lambda: [A.OpAssign("-", A.Prop(V("o"), "a", False), _lst())]
    F["opassign_overflow_prop"] = lambda: [A.Declare(V("op"), A.obj(("big", I(2 ** 63 - 1)))), A.OpAssign("+", A.Prop(V("op"), "big", False), I(1))]
    F["nested_pattern_mismatch"] = lambda: [A.Declare(A.ObjectE([A.Pair(S("a"), _lst(V("np"), V("nq")))]), A.obj(("a", _lst(I(1)))))]
    F["nested_pattern_in_list"] = lambda: [A.Declare(_lst(V("na"), A.ObjectE([A.Single(V("zz"), False, False)])), _lst(I(1), V("o")))]
    F["collect_name_reused"] = lambda: [A.Declare(A.ObjectE([A.Single(V("a"), False, False), A.Single(V("a"), False, True)]), V("o"))]
    F["collect_into_declared"] = lambda: [A.Declare(A.ObjectE([A.Single(V("n"), False, True)]), V("o"))]
    F["prop_name_invalid_utf8"] = lambda: [A.pr(A.ObjectE([A.Pair(A.Index(S("é"), I(0)), I(1))]))]
    F["slot_invalid_utf8"] = lambda: [A.pr(A.IStr(["x", A.Index(S("é"), I(1))]))]
    F["key_invalid_utf8"] = lambda: [A.pr(A.Index(V("o"), A.Index(S("é"), I(0))))]
    F["for_not_iterable"] = lambda: [A.For(V("it"), V("n"), [A.pr(V("it"))])]
    F["for_target_mismatch"] = lambda: [A.For(_lst(V("k1"), V("v1"), V("w1")), V("xs"), [A.pr(V("k1"))])]
    F["if_cond_type"] = lambda: [A.If([(V("n"), [A.pr(I(1))])], None)]
    F["elseif_cond_type"] = lambda: [A.If([(A.Bool(False), []), (S("s"), [A.pr(I(1))])], [])]
    F["while_cond_type"] = lambda: [A.While(A.Null(), [A.Break()])]
    F["dup_param"] = lambda: [A.FuncStmt("fdp", [V("pa"), V("pa")], False, [])]
    F["spread_in_params"] = lambda: [A.FuncStmt("fsp", [A.ListE([(V("pa"), True)], False)], False, [])]
    F["literal_param"] = lambda: [A.FuncStmt("flp", [I(1)], False, [])]
    F["param_pattern_mismatch"] = lambda: [A.FuncStmt("fpm", [_lst(V("pa"), V("pb"))], False, [A.Return(V("pa"))]),
                                           A.pr(A.call("fpm", _lst(I(1))))]
    F["param_dup_after_underscore"] = lambda: [A.FuncStmt("fpu", [V("_"), V("pa"), V("pa")], False, []), A.ExprStmt(A.call("fpu", I(1), I(2), I(3)))]
    return F


STMT_FAIL = stmt_failures()

# jumps are special: where they are legal depends on the context
JUMPS = ["break_root", "continue_root", "return_root", "break_in_fn", "continue_in_fn"]

POSITIONS = ["stmt", "decl_rhs", "assign_rhs", "opassign_rhs", "arg", "arg2", "callee", "index", "range_start", "range_end",
             "for_iter", "if_cond", "elseif_cond", "while_cond", "return", "list_item", "obj_value", "obj_name", "slot",
             "list_spread", "arg_spread", "list_pattern_src", "obj_pattern_src", "elem_assign_rhs", "prop_assign_rhs",
             "range_lhs", "binop_lhs", "binop_rhs", "type_base", "prop_base", "index_base", "index_target_idx", "nested_call_arg",
             # less usual hosts of an expression
             "obj_spread", "pattern_key", "range_assign_end", "range_assign_rhs", "method_arg", "slot_second", "slot_nested", "slot_in_key",
             "for_target_index", "arg_after_spread", "callee_of_call", "prop_target_base", "opassign_target_idx", "list_pattern_elem_src", "rest_call_arg",
             "dotdot_rhs", "len_base", "eq_in_list", "for_iter_call", "return_in_loop", "elseif_third", "obj_name_slot",
             "range_base", "range_base_open", "range_of_range", "discard_assign", "index_of_index", "prop_of_call"]


def e2(e):
    return A.clone(e)


def place(e, position, rng, in_fn):
    """Statement(s) that evaluate the failing expression e at `position`.  Returns (stmts, slot_bool)."""
    P = position
    if P == "stmt":
        return [A.Declare(V("_"), e)], False
    if P == "decl_rhs":
        return [A.Declare(V("t1"), e)], False
    if P == "assign_rhs":
        return [A.Declare(V("t2"), I(0)), A.Assign(V("t2"), e)], False
    if P == "opassign_rhs":
        return [A.Declare(V("t3"), I(0)), A.OpAssign("+", V("t3"), e)], False
    if P == "arg":
        return [A.pr(e)], False
    if P == "arg2":
        return [A.ExprStmt(A.Call(V("fr"), [(A.Call(V("tick"), [(I(1), False)]), False), (e, False), (A.Call(V("tick"), [(I(2), False)]), False)]))], False
    if P == "callee":
        return [A.ExprStmt(A.Call(A.Paren(e), [(I(1), False)]))], False
    if P == "index":
        return [A.pr(A.Index(V("xs"), e))], False
    if P == "range_start":
        return [A.pr(A.RangeIndex(V("xs"), e, None))], False
    if P == "range_end":
        return [A.pr(A.RangeIndex(V("s"), I(0), e))], False
    if P == "for_iter":
        return [A.For(V("t4"), e, [A.pr(V("t4"))])], False
    if P == "if_cond":
        return [A.If([(e, [A.pr(S("then"))])], [A.pr(S("else"))])], False
    if P == "elseif_cond":
        return [A.If([(A.Bool(False), [A.pr(S("no"))]), (e, [A.pr(S("then"))])], None)], False
    if P == "while_cond":
        return [A.While(e, [A.pr(S("body")), A.Break()])], False
    if P == "return":
        if in_fn:
            return [A.Return(e)], False
        return [A.FuncStmt("tret", [], False, [A.pr(S("in tret")), A.Return(e)]), A.pr(A.call("tret"))], False
    if P == "list_item":
        return [A.pr(_lst(A.Call(V("tick"), [(I(1), False)]), e, A.Call(V("tick"), [(I(2), False)])))], False
    if P == "obj_value":
        return [A.pr(A.ObjectE([A.Pair(S("a"), A.Call(V("tick"), [(I(1), False)])), A.Pair(S("k"), e)]))], False
    if P == "obj_name":
        return [A.pr(A.ObjectE([A.Pair(e, I(1))]))], False
    if P == "slot":
        return [A.pr(A.IStr(["pre é ", e, " post"]))], True
    if P == "list_spread":
        return [A.pr(A.ListE([(I(0), False), (e, True)], False))], False
    if P == "arg_spread":
        return [A.pr(A.Call(V("fr"), [(I(0), False), (e, True)]))], False
    if P == "list_pattern_src":
        return [A.Declare(_lst(V("t5")), e)], False
    if P == "obj_pattern_src":
        return [A.Declare(A.ObjectE([A.Single(V("a"), False, False)]), e)], False
    if P == "elem_assign_rhs":
        return [A.Assign(A.Index(V("xs"), I(0)), e)], False
    if P == "prop_assign_rhs":
        return [A.Assign(A.Prop(V("o"), "a", False), e)], False
    if P == "range_lhs":
        return [A.pr(A.Range(e, I(3)))], False
    if P == "binop_lhs":
        return [A.pr(A.Bin("==", e, I(1)))], False
    if P == "binop_rhs":
        return [A.pr(A.Bin("+", I(1), e))], False
    if P == "type_base":
        return [A.pr(A.Call(A.Prop(e, "type", True), []))], False
    if P == "prop_base":
        return [A.pr(A.Prop(e, "a", False))], False
    if P == "index_base":
        return [A.pr(A.Index(e, I(0)))], False
    if P == "index_target_idx":
        return [A.Assign(A.Index(V("xs"), e), I(1))], False
    if P == "nested_call_arg":
        return [A.pr(A.call("ident", A.call("ident", e)))], False
    if P == "obj_spread":
        return [A.pr(A.ObjectE([A.Pair(S("a"), I(1)), A.Single(e, True, False)]))], False
    if P == "pattern_key":
        return [A.Declare(A.ObjectE([A.Pair(e, V("t6"))]), V("o"))], False
    if P == "range_assign_end":
        return [A.Assign(A.RangeIndex(V("xs"), I(0), e), _lst(I(1)))], False
    if P == "range_assign_rhs":
        return [A.Assign(A.RangeIndex(V("xs"), I(0), I(1)), e)], False
    if P == "method_arg":
        return [A.pr(A.Call(A.Prop(A.Prop(A.obj(("inner", A.obj(("m", A.FuncE([V("v")], False, [A.Return(V("v"))]))))), "inner", False), "m", False), [(e, False)]))], False
    if P == "slot_second":
        return [A.pr(A.IStr(["p ", V("s"), " q ", e, " r"]))], True
    if P == "slot_nested":
        return [A.pr(A.IStr(["a ", A.IStr(["b ", e, " c"]), " d"]))], True
    if P == "slot_in_key":
        return [A.pr(A.Index(V("o"), A.IStr(["a", e])))], True
    if P == "obj_name_slot":
        return [A.pr(A.ObjectE([A.Pair(A.IStr(["k", e]), I(1))]))], True
    if P == "for_target_index":
        return [A.For(_lst(V("_"), A.Index(V("xs"), e)), _lst(I(5)), [A.pr(S("body"))])], False
    if P == "arg_after_spread":
        return [A.pr(A.Call(V("fr"), [(V("xs"), True), (e, False)]))], False
    if P == "callee_of_call":
        return [A.ExprStmt(A.Call(A.Call(A.Paren(e), []), []))], False
    if P == "prop_target_base":
        return [A.Assign(A.Prop(A.Paren(e), "a", False), I(1))], False
    if P == "opassign_target_idx":
        return [A.OpAssign("+", A.Index(V("xs"), e), I(1))], False
    if P == "list_pattern_elem_src":
        return [A.Declare(_lst(V("t7"), _lst(V("t8"))), _lst(I(1), e))], False
    if P == "rest_call_arg":
        return [A.pr(A.Call(V("fr"), [(I(1), False), (I(2), False), (e, False)]))], False
    if P == "dotdot_rhs":
        return [A.pr(A.Range(I(0), e))], False
    if P == "len_base":
        return [A.pr(A.Call(A.Prop(A.Paren(e), "len", True), []))], False
    if P == "eq_in_list":
        return [A.pr(A.Bin("==", _lst(I(1), e), _lst(I(1), I(2))))], False
    if P == "for_iter_call":
        return [A.For(V("t9"), A.call("ident", e), [A.pr(V("t9"))])], False
    if P == "return_in_loop":
        body = [A.For(V("_"), _lst(I(1), I(2)), [A.pr(S("iter")), A.Return(e)])]
        if in_fn:
            return body, False
        return [A.FuncStmt("tretl", [], False, body), A.pr(A.call("tretl"))], False
    if P == "range_base":
        return [A.pr(A.RangeIndex(A.Paren(e), I(0), I(3)))], False
    if P == "range_base_open":
        return [A.pr(A.RangeIndex(A.Paren(e), I(1), None))], False
    if P == "range_of_range":
        return [A.pr(A.RangeIndex(A.RangeIndex(A.Paren(e), I(1), None), I(0), I(2)))], False
    if P == "discard_assign":
        return [A.Assign(V("_"), e), A.Declare(A.lst(V("_"), V("_")), _lst(e2(e), I(0)))], False
    if P == "index_of_index":
        return [A.pr(A.Index(A.Index(_lst(A.Paren(e)), I(0)), I(0)))], False
    if P == "prop_of_call":
        return [A.pr(A.Prop(A.call("ident", e), "a", False))], False
    if P == "elseif_third":
        return [A.If([(A.Bool(False), []), (A.Bin("==", V("n"), I(-1)), [A.pr(S("no"))]), (e, [A.pr(S("then"))])], [A.pr(S("else"))])], False
    raise ValueError(P)


CONTEXTS = ["plain", "block", "if_then", "else", "while", "for", "block_in_for", "if_in_while"]


def wrap_context(stmts, ctx, uid):
    if ctx == "plain":
        return stmts
    if ctx == "block":
        return [A.Block([A.pr(S("blk"))] + stmts)]
    if ctx == "if_then":
        return [A.If([(A.Bin("<", V("n"), I(10)), [A.pr(S("then"))] + stmts)], [A.pr(S("never"))])]
    if ctx == "else":
        return [A.If([(A.Bin(">", V("n"), I(10)), [A.pr(S("never"))])], stmts)]
    if ctx == "while":
        c = "w%d" % uid
        return [A.Declare(V(c), I(0)), A.While(A.Bin("<", V(c), I(3)), [A.OpAssign("+", V(c), I(1)), A.pr(V(c)), A.If([(A.Bin("==", V(c), I(2)), stmts)], None)])]
    if ctx == "for":
        return [A.For(_lst(V("fi%d" % uid), V("fv%d" % uid)), _lst(S("p"), S("q")), [A.pr(V("fv%d" % uid))] + stmts)]
    if ctx == "block_in_for":
        return [A.For(V("_"), A.Range(I(0), I(2)), [A.Block([A.Block(stmts)])])]
    if ctx == "if_in_while":
        return [A.While(A.Bool(True), [A.If([(A.Bool(True), stmts)], None), A.Break()])]
    raise ValueError(ctx)


CALL_FORMS = ["named", "anon_var", "method", "passed", "returned", "index_call", "recursive", "literal_called", "literal_called_noargs"]


def prelude():
    return [
        A.Declare(V("xs"), _lst(I(1), I(2), I(3))),
        A.Declare(V("o"), A.obj(("a", I(1)))),
        A.Declare(V("n"), I(7)),
        A.Declare(V("s"), S("str")),
        A.FuncStmt("f0", [], False, [A.Return(I(0))]),
        A.FuncStmt("fr", [V("a"), V("r")], True, [A.Return(V("r"))]),
        A.FuncStmt("tick", [V("k")], False, [A.pr(A.Bin("+", S("tick "), A.Call(A.Prop(V("k"), "type", True), []))), A.Return(V("k"))]),
        A.FuncStmt("ident", [V("x")], False, [A.Return(V("x"))]),
        A.Declare(V("ob"), A.obj(("v", I(1)), ("get", A.FuncE([], False, [A.Return(A.Prop(V("this"), "v", False))])),
                                 ("inner", A.obj(("v", I(2)), ("get", A.FuncE([], False, [A.Return(A.Prop(V("this"), "v", False))])))))),
        A.FuncStmt("mkc", [], False, [A.Declare(V("c"), I(-1)), A.Return(A.FuncE([], False, [A.OpAssign("+", V("c"), I(1)), A.Return(V("c"))]))]),
        A.Declare(V("nextc"), A.call("mkc")),
    ]


def ok_exprs():
    """Operations that succeed on their own: name -> (builder, properties they belong to).  Placed into every host
    position by generate(kind="ok:<name>"); whether the host accepts the value is for the reference model to say."""
    S_ = S
    E = {}
    E["int_literal"] = (lambda: I(2), "C06 C16")
    E["negative_literal"] = (lambda: I(-1), "C06 C16")
    E["sum"] = (lambda: A.Bin("-", V("n"), I(6)), "C06 C08")                     # 1
    E["product"] = (lambda: A.Bin("*", V("n"), I(0)), "C06 C08")                # 0
    E["less_than"] = (lambda: A.Bin("<", V("n"), I(10)), "C06 C16 C07")
    E["equals_lists"] = (lambda: A.Bin("==", V("xs"), _lst(I(1), I(2), I(3))), "C10 C16")
    E["identical"] = (lambda: A.Bin("===", V("xs"), V("xs")), "C10 C05")
    E["and"] = (lambda: A.Bin("&&", A.Bool(True), A.Bin(">", V("n"), I(0))), "C16 C08 C07")
    E["string_var"] = (lambda: V("s"), "C15 C11")
    E["concat"] = (lambda: A.Bin("+", V("s"), S_("é")), "C15 C11")
    E["interpolated"] = (lambda: A.IStr(["<", V("s"), ">"]), "C15")
    E["char"] = (lambda: A.Index(V("s"), I(1)), "C11 C15")
    E["string_slice"] = (lambda: A.RangeIndex(V("s"), I(1), None), "C11 C15")
    E["list_var"] = (lambda: V("xs"), "C05 C11")
    E["list_literal"] = (lambda: _lst(V("n"), V("s")), "C11 C05 C13")
    E["list_spread"] = (lambda: A.ListE([(V("xs"), True), (I(4), False)], False), "C13 C11 C05")
    E["list_slice"] = (lambda: A.RangeIndex(V("xs"), I(1), None), "C11 C05")
    E["list_concat"] = (lambda: A.Bin("+", V("xs"), _lst(I(0))), "C11 C05")
    E["element"] = (lambda: A.Index(V("xs"), I(0)), "C11")
    E["range"] = (lambda: A.Range(I(0), I(2)), "C11 C07")
    E["object_var"] = (lambda: V("o"), "C12 C05")
    E["object_literal"] = (lambda: A.obj(("a", V("n")), ("z", V("s"))), "C12")
    E["object_spread"] = (lambda: A.ObjectE([A.Single(V("o"), True, False), A.Pair(S_("b"), I(2))]), "C12 C13")
    E["property"] = (lambda: A.Prop(V("o"), "a", False), "C12")
    E["key_lookup"] = (lambda: A.Index(V("o"), S_("a")), "C12")
    E["call"] = (lambda: A.call("f0"), "C14 C07")
    E["call_with_argument"] = (lambda: A.call("ident", V("n")), "C14")
    E["call_returning_list"] = (lambda: A.call("ident", V("xs")), "C14 C05")
    E["rest_call"] = (lambda: A.Call(V("fr"), [(I(0), False), (V("xs"), True)]), "C14 C13")
    E["method"] = (lambda: A.Call(A.Prop(V("ob"), "get", False), []), "C14")
    E["type_of_property"] = (lambda: A.Call(A.Prop(A.Prop(V("o"), "a", False), "type", True), []), "C16 C12 C14")
    E["type_of_nested_property"] = (lambda: A.Call(A.Prop(A.Prop(A.Prop(V("ob"), "inner", False), "v", False), "type", True), []), "C16 C12")
    E["len_of_property"] = (lambda: A.Call(A.Prop(A.Prop(A.obj(("t", S("abc"))), "t", False), "len", True), []), "C15 C12")
    E["type_of_element"] = (lambda: A.Call(A.Prop(A.Index(_lst(V("o"), V("s")), I(1)), "type", True), []), "C16 C11")
    E["type_of_method_result"] = (lambda: A.Call(A.Prop(A.Call(A.Prop(V("ob"), "get", False), []), "type", True), []), "C16 C14")
    E["method_two_dots"] = (lambda: A.Call(A.Prop(A.Prop(V("ob"), "inner", False), "get", False), []), "C14 C12")
    E["short_slice"] = (lambda: A.RangeIndex(V("xs"), I(0), I(1)), "C11 C05")
    E["short_string_slice"] = (lambda: A.RangeIndex(V("s"), I(0), I(1)), "C11 C15")
    E["slice_of_slice"] = (lambda: A.RangeIndex(A.RangeIndex(V("xs"), I(1), None), I(0), I(1)), "C11")
    E["method_two_steps"] = (lambda: A.Call(A.Prop(A.Index(V("ob"), S_("inner")), "get", False), []), "C14 C12")
    E["counter_closure"] = (lambda: A.call("nextc"), "C04 C14 C05")
    E["printing_call"] = (lambda: A.call("tick", I(1)), "C07 C14 C17")
    E["called_literal"] = (lambda: A.Call(A.FuncE([V("q")], False, [A.Return(A.Bin("+", V("q"), I(1)))]), [(I(0), False)]), "C14 C04 C08")
    E["function_value"] = (lambda: V("f0"), "C14 C16 C10")
    E["function_literal"] = (lambda: A.FuncE([], False, [A.Return(I(0))]), "C14 C16")
    E["builtin_value"] = (lambda: V("print"), "C16 C10 C19")
    E["method_value"] = (lambda: A.Prop(V("ob"), "get", False), "C14")
    E["type_of"] = (lambda: A.Call(A.Prop(V("xs"), "type", True), []), "C16 C15")
    E["length"] = (lambda: A.Call(A.Prop(V("s"), "len", True), []), "C15 C11")
    E["null"] = (lambda: A.Null(), "C16 C19")
    E["true"] = (lambda: A.Bool(True), "C16 C07")
    E["empty_list"] = (lambda: _lst(), "C11 C13 C10")
    E["empty_object"] = (lambda: A.obj(), "C12 C13 C10")
    E["empty_string"] = (lambda: S_(""), "C15 C11")
    E["print_call"] = (lambda: A.call("print", V("n")), "C19 C14 C17")
    E["negative_difference"] = (lambda: A.Bin("-", I(0), I(1)), "C06 C11 C16")
    E["difference_of_variables"] = (lambda: A.Bin("-", V("n"), A.Bin("+", V("n"), I(2))), "C06 C11")
    E["literal_left_greater"] = (lambda: A.Bin(">", I(10), V("n")), "C06 C16 C07")           # true
    E["literal_left_less"] = (lambda: A.Bin("<", I(10), V("n")), "C06 C16 C07")              # false
    E["literal_left_less_equal"] = (lambda: A.Bin("<=", I(7), V("n")), "C06 C16 C07")        # true
    E["literal_left_greater_equal"] = (lambda: A.Bin(">=", I(6), V("n")), "C06 C16 C07")     # false
    E["literal_left_equal"] = (lambda: A.Bin("==", I(7), V("n")), "C10 C16 C07")
    E["zero_index_sum"] = (lambda: A.Bin("+", I(0), I(0)), "C06 C11")
    E["last_index"] = (lambda: A.Bin("-", A.Index(V("xs"), I(2)), I(1)), "C06 C11")            # 2
    return E


EXPR_OK = ok_exprs()


def generate(seed, kind=None, position=None, ctx=None, depth=None):
    rng = random.Random(seed)
    names = list(EXPR_FAIL) + list(STMT_FAIL) + JUMPS
    kind = kind or rng.choice(names)
    depth = rng.choice([0, 0, 1, 1, 2, 3, 5]) if depth is None else depth
    ctx = ctx or rng.choice(CONTEXTS)
    slot = False
    if kind.startswith("ok:"):
        position = position or rng.choice(POSITIONS)
        body, slot = place(EXPR_OK[kind[3:]][0](), position, rng, depth > 0)
        body = body + [A.pr(S("after the host"))]
    elif kind in EXPR_FAIL:
        position = position or rng.choice(POSITIONS)
        if kind.startswith("interp_slot") and position == "slot":
            position = "arg"
        body, slot = place(EXPR_FAIL[kind](), position, rng, depth > 0)
    elif kind in STMT_FAIL:
        position = "stmt"
        body = STMT_FAIL[kind]()
    else:
        position = "stmt"
        if kind.endswith("_root"):
            depth = 0
            if ctx in ("while", "for", "block_in_for", "if_in_while") and not kind.startswith("return"):
                ctx = "block"
            body = [{"break_root": A.Break, "continue_root": A.Continue}.get(kind, lambda: A.Return(I(1)))()]
        else:
            depth = max(depth, 1)
            if ctx in ("while", "for", "block_in_for", "if_in_while"):
                ctx = "if_then"
            body = [A.Break() if kind.startswith("break") else A.Continue()]
    inner = [A.pr(S("before"))] + wrap_context(body, ctx, 0) + [A.pr(S("unreachable-after"))]
    prog = prelude()
    forms = []
    # build the call chain from the innermost level outwards
    cur = inner
    call_stmt = None
    for lvl in range(depth, 0, -1):
        form = rng.choice(CALL_FORMS)
        forms.append(form)
        fname = "lv%d" % lvl
        fbody = [A.pr(S("enter %d" % lvl))] + cur + [A.pr(S("leave %d" % lvl))]
        loop_wrap = (kind in ("break_in_fn", "continue_in_fn")) and lvl == 1
        if form == "recursive":
            # direct recursion: the same call site is active several times (identical consecutive stack-trace lines)
            defs = [A.FuncStmt(fname, [V("arg")], False, [A.If([(A.Bin(">", V("arg"), I(0)), [A.Return(A.call(fname, A.Bin("-", V("arg"), I(1))))])], None)] + fbody)]
            callx = A.call(fname, I(2))
        elif form == "named":
            defs = [A.FuncStmt(fname, [V("arg")], False, fbody)]
            callx = A.call(fname, I(lvl))
        elif form == "literal_called":
            # a function literal called on the spot: `fn (arg) { ... }(1)`
            defs = []
            callx = A.Call(A.FuncE([V("arg")], False, fbody), [(I(lvl), False)])
        elif form == "literal_called_noargs":
            defs = []
            callx = A.Call(A.FuncE([], False, fbody), [])
        elif form == "anon_var":
            defs = [A.Declare(V(fname), A.FuncE([V("arg")], False, fbody))]
            callx = A.call(fname, I(lvl))
        elif form == "method":
            defs = [A.Declare(V("ob%d" % lvl), A.obj(("id", I(lvl)), ("run", A.FuncE([V("arg")], False, fbody))))]
            callx = A.Call(A.Prop(V("ob%d" % lvl), "run", False), [(I(lvl), False)])
        elif form == "passed":
            defs = [A.FuncStmt(fname, [V("arg")], False, fbody),
                    A.FuncStmt("apply%d" % lvl, [V("g"), V("v")], False, [A.pr(S("apply")), A.Return(A.call("g", V("v")))])]
            callx = A.call("apply%d" % lvl, V(fname), I(lvl))
        elif form == "returned":
            defs = [A.FuncStmt("mk%d" % lvl, [], False, [A.Return(A.FuncE([V("arg")], False, fbody))])]
            callx = A.Call(A.call("mk%d" % lvl), [(I(lvl), False)])
        else:
            defs = [A.Declare(V("tbl%d" % lvl), _lst(A.FuncE([V("arg")], False, fbody)))]
            callx = A.Call(A.Index(V("tbl%d" % lvl), I(0)), [(I(lvl), False)])
        stmt = rng.choice([lambda c: A.ExprStmt(c), lambda c: A.pr(c), lambda c: A.Declare(V("res%d" % lvl), c)])(callx)
        if loop_wrap:
            cur = defs + [A.For(V("_"), _lst(I(1), I(2)), [stmt])]
        else:
            cur = defs + [stmt]
    prog += cur
    return prog, {"kind": kind, "position": position, "ctx": ctx, "depth": depth, "forms": forms, "slot": slot}
