"""Reference lexer written from the property statements (C03, C09, C15, C18).

lex(text) -> (tokens, error, unspecified)
  tokens: [(kind, value, line, col)]   value: str for Ident/StrLiteral, decimal str for
          IntLiteral, (decoded, slots) for InterpStrLiteral, "" otherwise
  error:  None | (kind, line, col, detail)   first lexical error (scanning stops there)
  unspecified: True when the input runs into a corner no statement covers
          (`$` not followed by `"`, end of input inside a string literal); the token
          stream is then not compared, only crash/hang freedom is required.
"""

from .printer import SYMBOL_KIND, KEYWORD_KIND, CONT_KINDS

SINGLE = {k for k in SYMBOL_KIND if len(k) == 1}
DOUBLE = {k for k in SYMBOL_KIND if len(k) == 2}
TRIPLE = {k for k in SYMBOL_KIND if len(k) == 3}
WS = " \t\r\x0c"
I64_MAX = 2 ** 63 - 1


def _word(c):
    return c.isascii() and (c.isalnum() or c == "_")


class _Unspecified(Exception):
    pass


def lex(text):
    toks = []
    n = len(text)
    i = 0
    line, col = 1, 1         # position of text[i]
    if n and text[0] == "\n":
        line, col = 2, 0

    def adv(k=1):
        nonlocal i, line, col
        for _ in range(k):
            i += 1
            if i < n:
                if text[i] == "\n":
                    line += 1
                    col = 0
                else:
                    col += 1
    last = None               # kind of the previous token seen by the suppression rule
    try:
        while i < n:
            c = text[i]
            if c in WS:
                adv()
                continue
            if c == "#":
                while i < n and text[i] != "\n":
                    adv()
                continue
            sl, sc = line, col
            if c == "\n" or c == ";":
                adv()
                if last is not None and last not in CONT_KINDS:
                    toks.append(("StmtEnd", "", sl, sc))
                last = "StmtEnd"
                continue
            if c.isascii() and (c.isalpha() or c == "_"):
                j = i
                while j < n and _word(text[j]):
                    j += 1
                w = text[i:j]
                adv(j - i)
                if w in KEYWORD_KIND:
                    toks.append((KEYWORD_KIND[w], "", sl, sc))
                    last = KEYWORD_KIND[w]
                else:
                    toks.append(("Ident", w, sl, sc))
                    last = "Ident"
                continue
            if c.isascii() and c.isdigit():
                j = i
                while j < n and (text[j].isascii() and text[j].isdigit() or text[j] == "_"):
                    j += 1
                raw = text[i:j]
                v = int(raw.replace("_", ""))
                if v > I64_MAX:
                    return toks, ("IntOverflow", sl, sc, raw), False
                adv(j - i)
                toks.append(("IntLiteral", str(v), sl, sc))
                last = "IntLiteral"
                continue
            if c == '"' or c == "$":
                interp = c == "$"
                if interp:
                    if i + 1 >= n or text[i + 1] != '"':
                        raise _Unspecified()
                    adv()
                adv()       # opening quote
                chars = []
                slots = []
                closed = False
                while i < n:
                    ch = text[i]
                    cl, cc = line, col
                    adv()
                    if ch == "\\":
                        if i >= n:
                            raise _Unspecified()
                        e = text[i]
                        el, ec = line, col
                        adv()
                        if e in '\\"$':
                            chars.append(e)
                        elif e == "n":
                            chars.append("\n")
                        elif e == "r":
                            chars.append("\r")
                        elif e == "x":
                            val = 0
                            for _ in range(2):
                                if i >= n:
                                    raise _Unspecified()
                                h = text[i]
                                hl, hc = line, col
                                adv()
                                if not (h.isascii() and h in "0123456789abcdefABCDEF"):
                                    return toks, ("InvalidHexChar", hl, hc, h), False
                                val = val * 16 + int(h, 16)
                            chars.append(chr(val))
                        else:
                            return toks, ("InvalidEscapeChar", el, ec, e), False
                    elif ch == "$":
                        if not interp:
                            return toks, ("UnescapedDollar", cl, cc, ""), False
                        start = len(chars)
                        chars.append("$")
                        if i >= n:
                            raise _Unspecified()
                        b = text[i]
                        bl, bc = line, col
                        if b != "{":
                            return toks, ("InvalidInterpolationStart", bl, bc, b), False
                        depth = 0
                        while True:
                            if i >= n:
                                raise _Unspecified()
                            s = text[i]
                            adv()
                            chars.append(s)
                            if s == "{":
                                depth += 1
                            elif s == "}":
                                depth -= 1
                                if depth == 0:
                                    break
                        slots.append((start, len(chars)))
                    elif ch == '"':
                        closed = True
                        break
                    else:
                        chars.append(ch)
                if not closed:
                    raise _Unspecified()
                s = "".join(chars)
                if interp:
                    toks.append(("InterpStrLiteral", (s, slots), sl, sc))
                    last = "InterpStrLiteral"
                else:
                    toks.append(("StrLiteral", s, sl, sc))
                    last = "StrLiteral"
                continue
            # symbols: longest match
            t3 = text[i:i + 3]
            t2 = text[i:i + 2]
            if t3 in TRIPLE:
                sym = t3
            elif t2 in DOUBLE:
                sym = t2
            elif c in SINGLE:
                sym = c
            else:
                return toks, ("Unexpected", sl, sc, c), False
            adv(len(sym))
            toks.append((SYMBOL_KIND[sym], "", sl, sc))
            last = SYMBOL_KIND[sym]
    except _Unspecified:
        return toks, None, True
    return toks, None, False


def parse_dump(line):
    """Parse one record of the --verif-tokens hook into the same shape as lex()."""
    if line == "hang":
        return None, ("hang", "the dump of this single input did not finish (8 s; a dump normally takes milliseconds)"), None
    if line == "skipped":
        return None, ("skipped", "not judged: the shard already showed several hangs"), None
    if line.startswith("panic|"):
        return None, ("panic", bytes.fromhex(line[6:]).decode("utf-8", "replace")), None
    parts = line.split("|")
    if parts[0] != "ok":
        return None, ("bad-record", line[:80]), None
    toks = []
    err = None
    ends = []
    for p in parts[1:]:
        if p.startswith("!"):
            f = p[1:].split(",")
            if f[0] == "stuck":
                err = ("stuck", 0, 0, "")
            else:
                err = (f[0], int(f[1]), int(f[2]), bytes.fromhex(f[3]).decode("utf-8") if len(f) > 3 else "")
            break
        f = p.split(",")
        kind = f[0]
        val = f[1]
        ends.append(int(f[6]) if len(f) > 6 else None)
        if kind == "InterpStrLiteral":
            hx, _, sl = val.partition("/")
            slots = [tuple(int(x) for x in s.split("-")) for s in sl.split(";") if s]
            val = (bytes.fromhex(hx).decode("utf-8"), slots)
        elif kind in ("Ident", "StrLiteral", "IntLiteral"):
            val = bytes.fromhex(val).decode("utf-8")
        else:
            val = ""
        toks.append((kind, val, int(f[2]), int(f[3])))
    return toks, err, ends


def dropped_input(text, toks, ends):
    """Model-free accounting oracle: between the end of one token and the start of the next
    (and after the last token) the lexer may skip only layout - whitespace, comments,
    newlines and `;`.  Returns the first silently dropped character (with its offset) or None.
    `ends` are byte offsets of the first unread character after each token (from the hook)."""
    raw = text.encode("utf-8")
    # byte offset of each (line, col)
    line_starts = [0]
    for i, ch in enumerate(text):
        if ch == "\n":
            line_starts.append(i + 1)
    char_to_byte = [0]
    acc = 0
    for ch in text:
        acc += len(ch.encode("utf-8"))
        char_to_byte.append(acc)

    def start_byte(line, col):
        if line < 1 or line > len(line_starts):
            return None
        if col == 0:
            ci = line_starts[line - 1] - 1     # the newline character itself
        else:
            ci = line_starts[line - 1] + col - 1
        return char_to_byte[ci] if 0 <= ci < len(char_to_byte) else None

    def layout_only(b0, b1):
        seg = raw[b0:b1].decode("utf-8", "replace")
        i = 0
        while i < len(seg):
            ch = seg[i]
            if ch in " \t\r\x0c\n;":
                i += 1
            elif ch == "#":
                while i < len(seg) and seg[i] != "\n":
                    i += 1
            else:
                return (ch, b0 + len(seg[:i].encode("utf-8")))
        return None
    prev_end = 0
    for (kind, val, line, col), end in zip(toks, ends):
        sb = start_byte(line, col)
        if sb is None or end is None:
            return None
        if sb > prev_end:
            bad = layout_only(prev_end, sb)
            if bad:
                return bad
        prev_end = max(prev_end, end)
    return layout_only(prev_end, len(raw))

