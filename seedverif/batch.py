"""Probe batching: many independent observations per interpreter process.

A check module provides `make_probe(desc, k) -> dict(stmts=[...], expect=[lines] | None,
prefix=[lines printed before the failure], tag=str, what=str)`.
 * expect = list of stdout lines  -> the probe must succeed and print exactly these
 * expect = None                  -> the probe must end in a reported error (exit 103)
`k` is a unique index the probe uses to suffix its variable names so probes in one
script cannot interfere.  Successful probes are packed into one script separated by
marker lines; failing probes run alone.
"""

import importlib

from . import core, judge, printer as P, sast as A

MARK = "#@"


def _run_success_batch(probes):
    """probes: [(k, probe)] all expected to succeed.  Returns (violations, nobs)."""
    viol = []
    todo = list(probes)
    nobs = 0
    runs = 0
    shas = set()
    while todo:
        prog = []
        for k, pr in todo:
            prog.append(A.pr(A.Str("%s%d" % (MARK, k))))
            prog += pr["stmts"]
        r = P.render(prog)
        o = core.run_one({"src": r.text})
        runs += 1
        shas.add(core.sha(r.text)[:12])
        if o.timeout:
            return viol, nobs, runs, shas, "timeout in a batch"
        if o.died:
            viol.append(("crash", "crash in probe batch: " + o.err.decode("utf-8", "replace")[-300:], r.text, None))
            return viol, nobs, runs, shas, None
        # split the output by markers
        chunks = {}
        cur = None
        for ln in o.out.decode("utf-8", "replace").split("\n")[:-1]:
            if ln.startswith(MARK):
                cur = int(ln[len(MARK):])
                chunks[cur] = []
            elif cur is not None:
                chunks[cur].append(ln)
        stopped_at = None
        for idx, (k, pr) in enumerate(todo):
            if k not in chunks:
                stopped_at = idx
                break
            got = chunks[k]
            last_started = (idx == len(todo) - 1) or (todo[idx + 1][0] not in chunks)
            if o.code != 0 and last_started:
                # this probe is the one that failed
                viol.append(("rejected/" + pr["tag"], "%s must succeed but failed: %s" % (pr["what"], o.err.decode("utf-8", "replace")[:200]),
                             P.render(pr["stmts"]).text, pr))
                stopped_at = idx + 1
                break
            nobs += 1
            if got != pr["expect"]:
                viol.append(("value/" + pr["tag"], "%s printed %s, expected %s" % (pr["what"], got[:6], pr["expect"][:6]),
                             P.render(pr["stmts"]).text, pr))
        if o.code == 0 or stopped_at is None:
            break
        if stopped_at == 0:
            # nothing ran at all (the whole script was rejected): judge the probes one by one
            if len(todo) == 1:
                k, pr = todo[0]
                viol.append(("rejected/" + pr["tag"], "%s must succeed but the script was rejected: %s" % (pr["what"], o.err.decode("utf-8", "replace")[:200]),
                             P.render(pr["stmts"]).text, pr))
                break
            for item in todo:
                v2, n2, r2, s2, inc2 = _run_success_batch([item])
                viol += v2
                nobs += n2
                runs += r2
                shas |= s2
                if len(viol) > 50:
                    break
            break
        todo = todo[stopped_at:]
    return viol, nobs, runs, shas, None


def _run_failing(k, pr):
    prog = [A.pr(A.Str("probe"))] + pr["stmts"] + [A.pr(A.Str("unreachable"))]
    r = P.render(prog)
    o = core.run_one({"src": r.text})
    sha = core.sha(r.text)[:12]
    if o.timeout:
        return None, sha, "timeout"
    if o.died:
        return ("crash/" + pr["tag"], "%s crashed: %s" % (pr["what"], o.err.decode("utf-8", "replace")[-300:]), r.text, pr), sha, None
    if o.code == 0:
        return ("accepted/" + pr["tag"], "%s must be a reported error but succeeded, printing %s" % (
            pr["what"], o.out.decode("utf-8", "replace").split("\n")[1:4]), r.text, pr), sha, None
    d = judge.Diag(o.err)
    want = ("probe\n" + "".join(l + "\n" for l in pr.get("prefix", []))).encode("utf-8")
    if o.code != 103 or not d.ok:
        return ("error-shape/" + pr["tag"], "%s: failure is not a clean located diagnostic: %r" % (pr["what"], o.err[:200]), r.text, pr), sha, None
    if o.out != want:
        return ("error-prefix/" + pr["tag"], "%s: output before the failure is %r, expected %r" % (pr["what"], o.out[-120:], want[-120:]), r.text, pr), sha, None
    if pr.get("atoms") and not judge.atoms_in_order(d.msg, pr["atoms"]):
        return ("error-atoms/" + pr["tag"], "%s: message %r does not name %s" % (pr["what"], d.msg, pr["atoms"]), r.text, pr), sha, None
    return None, sha, None


def _work(arg):
    modname, descs, k0 = arg
    mod = importlib.import_module(modname)
    out = {"viol": [], "obs": 0, "runs": 0, "shas": set(), "tags": {}, "inconclusive": 0, "n": len(descs)}
    good, bad = [], []
    for i, d in enumerate(descs):
        try:
            pr = mod.make_probe(d, k0 + i)
        except Exception as e:
            import traceback
            out["inconclusive"] += 1
            out.setdefault("notes", []).append("make_probe error: " + traceback.format_exc()[-400:])
            continue
        if pr is None:
            continue
        out["tags"][pr["tag"]] = out["tags"].get(pr["tag"], 0) + 1
        (good if pr["expect"] is not None else bad).append((k0 + i, pr))
    if good:
        viol, nobs, runs, shas, inc = _run_success_batch(good)
        out["viol"] += viol
        out["obs"] += nobs
        out["runs"] += runs
        out["shas"] |= shas
        if inc:
            out["inconclusive"] += 1
    for k, pr in bad:
        v, sha, inc = _run_failing(k, pr)
        out["runs"] += 1
        out["obs"] += 1
        out["shas"].add(sha)
        if inc:
            out["inconclusive"] += 1
        if v:
            out["viol"].append(v)
    for k, pr in (good[:1] + bad[:1]):
        try:
            out.setdefault("samples", []).append({"actual_case": True, "probe": pr["what"], "source": P.render(pr["stmts"]).text[:1200],
                                                  "expected": pr["expect"] if pr["expect"] is not None else "a reported error (exit 103)"})
        except Exception:
            pass
    # strip unpicklable / heavy payloads
    out["viol"] = [(s, w, src, {"what": pr["what"], "expect": pr["expect"]} if pr else None) for s, w, src, pr in out["viol"]]
    return out


def run(rep, modname, descs, prefix, chunk=120, oracle="sequence/map model"):
    jobs = [(modname, descs[i:i + chunk], i) for i in range(0, len(descs), chunk)]
    probe_ids = {core.sha(repr(d))[:12] for d in descs}
    for res in core.pool().imap_unordered(_work, jobs, chunksize=1):
        rep.evaluations += res["n"]
        rep.process_runs += res["runs"]
        rep.probe_observations += res["obs"]
        for n in res.get("notes", []):
            rep.note_inconclusive(n)
        rep.inconclusive += max(0, res["inconclusive"] - len(res.get("notes", [])))
        for smp in res.get("samples", []):
            if sum(1 for x in rep.samples if isinstance(x, dict) and x.get("actual_case")) < 3:
                rep.samples.insert(0, smp)
        for t, v in res["tags"].items():
            rep.tally("probes", t, v)
        for sig, what, src, info in res["viol"]:
            rep.violation("%s/%s" % (prefix, sig), what, {"src": src, "oracle": oracle, "probe": info})
    rep.distinct.update(probe_ids)
