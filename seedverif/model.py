"""Reference evaluator: an independent executable reading of docs/features.md
and the property statements (DESIGN.md Appendix A).

Control flow uses Python exceptions (the implementation returns an escape
value); values are Python objects with identity; objects are dicts iterated in
ascending key order.  The model returns what an execution must look like at
the process boundary: stdout bytes, and either success or one error with its
kind, position, the atoms its message must name, and the active call stack.
"""

import sys

from . import sast as A

sys.setrecursionlimit(20000)

I64_MAX = 2 ** 63 - 1
I64_MIN = -(2 ** 63)


class MList:
    __slots__ = ("items",)

    def __init__(self, items):
        self.items = items          # list of SV


class MObj:
    __slots__ = ("props",)

    def __init__(self, props):
        self.props = props          # dict str -> SV


class MFunc:
    __slots__ = ("name", "params", "collect", "body", "closure")

    def __init__(self, name, params, collect, body, closure):
        self.name = name
        self.params = params
        self.collect = collect
        self.body = body
        self.closure = closure      # list of scope dicts (shared by reference)


class MBuiltin:
    __slots__ = ("name", "fn")

    def __init__(self, name, fn):
        self.name = name
        self.fn = fn


class SV:
    """A value plus the object it was last read from (`this` provenance)."""
    __slots__ = ("v", "src")

    def __init__(self, v, src=None):
        self.v = v
        self.src = src


def type_name(v):
    if v is None:
        return "null"
    if v is True or v is False:
        return "bool"
    if isinstance(v, int):
        return "int"
    if isinstance(v, bytes):
        return "string"
    if isinstance(v, MList):
        return "list"
    if isinstance(v, MObj):
        return "object"
    if isinstance(v, (MFunc, MBuiltin)):
        return "func"
    raise TypeError(v)


def kind8(v):
    """The 8 value kinds of C16 (distinguishes builtin from user function)."""
    if isinstance(v, MBuiltin):
        return "builtin"
    return type_name(v)


class SeedError(Exception):
    """A reported (exit 103) runtime error."""

    def __init__(self, kind, pos, atoms=(), stack=None, func=None, pinned=False):
        Exception.__init__(self, kind)
        self.kind = kind
        self.pos = pos          # (line, col) or None if unknown to the model
        self.atoms = [str(a) for a in atoms]
        self.stack = stack      # [(call_pos, caller_name)] innermost first, filled by run()
        self.func = func        # innermost active user function name or None
        self.pinned = pinned    # position is one a property pins


class ModelLimit(Exception):
    """Fuel / depth exhausted: the case is discarded, never judged."""


class _Break(Exception):
    def __init__(self, pos):
        self.pos = pos


class _Continue(Exception):
    def __init__(self, pos):
        self.pos = pos


class _Return(Exception):
    def __init__(self, sv, pos):
        self.sv = sv
        self.pos = pos


def key_order(k):
    return k.encode("utf-8")


class Result:
    def __init__(self):
        self.out = b""
        self.error = None       # SeedError or None
        self.steps = 0
        self.stmts = 0
        self.max_depth = 0
        self.events = {}        # tallies for non-triviality rules

    @property
    def ok(self):
        return self.error is None


class Interp:
    def __init__(self, rendered, fuel=20000, max_depth=40, max_nest=40, max_out=1 << 20, max_size=1 << 16):
        self.r = rendered
        self.pos = rendered.pos if rendered is not None else {}
        self.oppos = rendered.oppos if rendered is not None else {}
        self.fuel = fuel
        self.max_depth = max_depth
        self.max_nest = max_nest
        self.max_out = max_out
        self.max_size = max_size
        self.out = []
        self.out_len = 0
        self.steps = 0
        self.nstmts = 0
        self.stack = []          # [(call_pos, callee_name)]
        self.depth_seen = 0
        self.events = {}
        self.hooks = None        # optional observer: fn(event, *args)
        self.resolutions = None  # optional set of (use_pos, decl_pos) pairs (C04 renaming)

    # ------------------------------------------------------------------ helpers
    def p(self, node):
        return self.pos.get(id(node))

    def op(self, node):
        return self.oppos.get(id(node))

    def tick(self, n=1):
        self.steps += n
        if self.steps > self.fuel:
            raise ModelLimit("fuel")

    def ev(self, name):
        self.events[name] = self.events.get(name, 0) + 1

    def err(self, kind, pos, atoms=(), pinned=False):
        return SeedError(kind, pos, atoms, pinned=pinned)

    # ------------------------------------------------------------------ program
    def run(self, stmts):
        res = Result()
        scope = {"print": [SV(MBuiltin("print", self.b_print)), (0, 0)]}
        scopes = [scope]
        self.global_scope = scope
        try:
            try:
                self.exec_seq(stmts, scopes)
            except _Break as e:
                raise self.err("BreakOutsideLoop", e.pos)
            except _Continue as e:
                raise self.err("ContinueOutsideLoop", e.pos)
            except _Return as e:
                raise self.err("ReturnOutsideFunction", e.pos)
        except SeedError as e:
            if e.stack is None:
                e.stack = self._stack_lines()
                e.func = self.stack[-1][1] if self.stack else None
            res.error = e
        except RecursionError:
            raise ModelLimit("python recursion")
        res.out = b"".join(self.out)
        res.steps = self.steps
        res.stmts = self.nstmts
        res.max_depth = self.depth_seen
        res.events = self.events
        res.global_scope = self.global_scope
        return res

    def _stack_lines(self, stack=None):
        # one line per active call, innermost first: position of the call and the
        # name of the function containing it.
        stack = self.stack if stack is None else stack
        lines = []
        for i in range(len(stack) - 1, -1, -1):
            call_pos = stack[i][0]
            container = stack[i - 1][1] if i > 0 else "<root>"
            lines.append((call_pos, container))
        return lines

    def fail(self, e):
        """Attach the call stack at the raise point (so later unwinding does not lose it)."""
        if e.stack is None:
            e.stack = self._stack_lines()
            e.func = self.stack[-1][1] if self.stack else None
        return e

    # ------------------------------------------------------------------ statements
    def exec_seq(self, stmts, scopes):
        for s in stmts:
            self.exec_stmt(s, scopes)

    def exec_in_new_scope(self, stmts, scopes):
        self.exec_seq(stmts, scopes + [{}])

    def exec_stmt(self, s, scopes):
        self.tick()
        self.nstmts += 1
        t = type(s)
        if t is A.ExprStmt:
            self.eval(s.e, scopes)
        elif t is A.Declare:
            v = self.eval(s.r, scopes)
            self.bind(s.l, v, scopes, True, None, None)
        elif t is A.Assign:
            v = self.eval(s.r, scopes)
            self.bind(s.l, v, scopes, False, None, None)
        elif t is A.OpAssign:
            v = self.eval(s.r, scopes)
            self.bind(s.l, v, scopes, False, (s.op, self.op(s)), set())
        elif t is A.Block:
            self.ev("block")
            self.exec_in_new_scope(s.body, scopes)
        elif t is A.If:
            for cond, body in s.branches:
                if self.to_bool(cond, scopes, "condition"):
                    self.exec_in_new_scope(body, scopes)
                    return
            if s.els is not None:
                self.exec_in_new_scope(s.els, scopes)
        elif t is A.While:
            while True:
                self.tick()
                if not self.to_bool(s.cond, scopes, "condition"):
                    break
                try:
                    self.exec_in_new_scope(s.body, scopes)
                except _Break:
                    self.ev("break_while")
                    break
                except _Continue:
                    self.ev("continue_while")
                    continue
        elif t is A.For:
            it = self.eval(s.it, scopes)
            pairs = self.pairs(it.v, self.p(s.it))
            for k, v in pairs:
                self.tick()
                sc = scopes + [{}]
                pair = SV(MList([k, v]))
                self.bind(s.l, pair, sc, True, None, None)
                try:
                    self.exec_seq(s.body, sc)
                except _Break:
                    self.ev("break_for")
                    break
                except _Continue:
                    self.ev("continue_for")
                    continue
        elif t is A.Break:
            raise _Break(self.op(s))
        elif t is A.Continue:
            raise _Continue(self.op(s))
        elif t is A.FuncStmt:
            self.validate_params(s.params)
            f = MFunc(s.name, s.params, s.collect, s.body, list(scopes))
            self.bind_name(s.name, self.op(s), SV(f), scopes, True, None, set())
        elif t is A.Return:
            v = self.eval(s.e, scopes)
            raise _Return(v, self.op(s))
        else:
            raise TypeError(s)

    def pairs(self, v, pos):
        if isinstance(v, bytes):
            return [(SV(i), SV(bytes([c]))) for i, c in enumerate(v)]
        if isinstance(v, MList):
            return [(SV(i), x) for i, x in enumerate(list(v.items))]
        if isinstance(v, MObj):
            return [(SV(k.encode("utf-8")), v.props[k]) for k in sorted(v.props, key=key_order)]
        raise self.fail(self.err("ForIterNotIterable", pos))

    def validate_params(self, params):
        queue = list(params)
        seen = {}
        while queue:
            a = queue.pop(0)
            pos = self.p(a)
            a = unparen(a)
            if isinstance(a, A.Var):
                if a.name == "_":
                    break       # (mirrors the implementation: validation stops here)
                if a.name in seen:
                    raise self.fail(self.err("DupParamName", pos, [a.name, seen[a.name][0], seen[a.name][1]]))
                seen[a.name] = pos
            elif isinstance(a, A.ObjectE):
                for pr in a.props:
                    if isinstance(pr, A.Pair):
                        queue.append(pr.v)
                    else:
                        if pr.spread:
                            raise self.fail(self.err("SpreadInParamList", pos))
                        queue.append(pr.e)
            elif isinstance(a, A.ListE):
                for e, spread in a.items:
                    if spread:
                        raise self.fail(self.err("SpreadInParamList", pos))
                    queue.append(e)
            else:
                raise self.fail(self.err("InvalidBindTarget", pos))

    # ------------------------------------------------------------------ binding
    def bind(self, lhs, rhs, scopes, declare, op, names):
        if names is None:
            names = set()
        self.tick()
        pos = self.p(lhs)
        lhs = unparen(lhs)
        t = type(lhs)
        if t is A.Var:
            self.bind_name(lhs.name, pos, rhs, scopes, declare, op, names)
        elif t is A.Index:
            target = self.eval(lhs.e, scopes).v
            if isinstance(target, MList):
                n = self.to_index(lhs.i, scopes)
                if n >= len(target.items):
                    raise self.fail(self.err("OutOfListBounds", pos))
                cur = target.items[n]
                target.items[n] = self.op_assign(cur, rhs, op)
            elif isinstance(target, MObj):
                k = self.to_str(lhs.i, scopes, "property")
                if k in target.props:
                    target.props[k] = self.op_assign(target.props[k], rhs, op)
                elif op is not None:
                    raise self.fail(self.err("OpOnUndefinedIndex", pos, [k]))
                else:
                    target.props[k] = rhs
            else:
                raise self.fail(self.err("ValueNotIndexAssignable", pos))
        elif t is A.RangeIndex:
            if op is not None:
                raise self.fail(self.err("OpOnRangeIndex", pos))
            target = self.eval(lhs.e, scopes).v
            if not isinstance(target, MList):
                raise self.fail(self.err("ValueNotRangeIndexAssignable", pos))
            if isinstance(rhs.v, MList):
                items = list(rhs.v.items)
            elif isinstance(rhs.v, bytes):
                items = [SV(bytes([c])) for c in rhs.v]
            else:
                raise self.fail(self.err("RangeIndexAssignOnNonIndexable", pos, [type_name(rhs.v)]))
            start = self.to_index(lhs.a, scopes) if lhs.a is not None else 0
            n = len(target.items)
            end = self.to_index(lhs.b, scopes) if lhs.b is not None else n
            if start > n:
                raise self.fail(self.err("RangeStartOutOfListBounds", pos))
            if start >= end:
                raise self.fail(self.err("RangeStartNotBeforeEnd", pos))
            if end > n:
                raise self.fail(self.err("RangeEndOutOfListBounds", pos))
            if end - start != len(items):
                raise self.fail(self.err("RangeIndexItemMismatch", pos))
            for i, v in enumerate(items):
                target.items[start + i] = v
        elif t is A.Prop:
            if lhs.type_prop:
                raise self.fail(self.err("AssignToTypeProp", pos))
            target = self.eval(lhs.e, scopes).v
            if not isinstance(target, MObj):
                raise self.fail(self.err("PropAccessOnNonObject", pos, [type_name(target)]))
            if lhs.name in target.props:
                target.props[lhs.name] = self.op_assign(target.props[lhs.name], rhs, op)
            elif op is not None:
                raise self.fail(self.err("OpOnUndefinedProp", pos, [lhs.name]))
            else:
                target.props[lhs.name] = rhs
        elif t is A.ObjectE:
            if op is not None:
                raise self.fail(self.err("OpOnObjectDestructure", pos))
            if not isinstance(rhs.v, MObj):
                raise self.fail(self.err("ObjectDestructureOnNonObject", pos, [type_name(rhs.v)]))
            self.bind_object(lhs, rhs.v, scopes, declare, names)
        elif t is A.ListE:
            if op is not None:
                raise self.fail(self.err("OpOnListDestructure", pos))
            if not isinstance(rhs.v, MList):
                raise self.fail(self.err("ListDestructureOnNonList", pos, [type_name(rhs.v)]))
            self.bind_list(lhs, pos, rhs.v, scopes, declare, names)
        else:
            raise self.fail(self.err("InvalidBindTarget", pos))

    def op_assign(self, cur, rhs, op):
        if op is None:
            return rhs
        return SV(self.binop(op[0], op[1], cur.v, rhs.v))

    def bind_name(self, name, pos, rhs, scopes, declare, op, names):
        if name == "_":
            return
        if name in names:
            raise self.fail(self.err("AlreadyInBinding", pos, [name]))
        names.add(name)
        if declare:
            if op is not None:
                raise self.fail(self.err("Dev", pos))
            top = scopes[-1]
            if name in top:
                prev = top[name][1]
                raise self.fail(self.err("AlreadyInScope", pos, [name, prev[0] if prev else "?", prev[1] if prev else "?"], pinned=True))
            top[name] = [rhs, pos]
            if self.resolutions is not None and pos is not None:
                self.resolutions.add((tuple(pos), tuple(pos), name))
            self.ev("declare")
        else:
            if op is not None:
                cur = self.lookup(name, scopes, pos)
                if cur is None:
                    raise self.fail(self.err("Undefined", pos, [name], pinned=True))
                rhs = SV(self.binop(op[0], op[1], cur.v, rhs.v))
            for sc in reversed(scopes):
                if name in sc:
                    sc[name][0] = rhs
                    if sc is not scopes[-1]:
                        self.ev("assign_outer")
                    if self.resolutions is not None and pos is not None:
                        self.resolutions.add((tuple(pos), tuple(sc[name][1] or (0, 0)), name))
                    return
            raise self.fail(self.err("Undefined", pos, [name], pinned=True))

    def lookup(self, name, scopes, use_pos=None):
        for i in range(len(scopes) - 1, -1, -1):
            sc = scopes[i]
            if name in sc:
                if i != len(scopes) - 1:
                    self.ev("resolve_outer")
                if self.resolutions is not None and use_pos is not None:
                    self.resolutions.add((tuple(use_pos), tuple(sc[name][1] or (0, 0)), name))
                return sc[name][0]
        return None

    def bind_object(self, pat, obj, scopes, declare, names):
        remaining = set(obj.props)
        n = len(pat.props)
        for i, pr in enumerate(pat.props):
            if isinstance(pr, A.Single):
                pos = self.p(pr.e)
                if pr.spread:
                    raise self.fail(self.err("SpreadOnObjectDestructure", pos))
                e = unparen(pr.e)
                if not isinstance(e, A.Var):
                    raise self.fail(self.err("ObjectPropShorthandNotVar", pos))
                if pr.collect:
                    if i != n - 1:
                        raise self.fail(self.err("ObjectCollectIsNotLast", pos))
                    rest = MObj({k: obj.props[k] for k in remaining})
                    self.ev("object_collect")
                    self.bind_name(e.name, pos, SV(rest), scopes, declare, None, names)
                    continue
                self.bind_object_prop(pr.e, obj, e.name, pos, scopes, declare, names)
                remaining.discard(e.name)
            else:
                pos = self.p(pr.k)
                k = self.to_str(pr.k, scopes, "property")
                self.bind_object_prop(pr.v, obj, k, pos, scopes, declare, names)
                remaining.discard(k)

    def bind_object_prop(self, lhs, obj, name, pos, scopes, declare, names):
        if name == "_":
            return
        if name not in obj.props:
            raise self.fail(self.err("PropNotFound", pos, [name]))
        self.bind(lhs, obj.props[name], scopes, declare, None, names)

    def bind_list(self, pat, pos, lst, scopes, declare, names):
        ln = len(pat.items)
        rn = len(lst.items)
        if pat.collect:
            if ln - 1 > rn:
                raise self.fail(self.err("ListCollectTooFew", pos))
        elif ln != rn:
            raise self.fail(self.err("ListDestructureItemMismatch", pos))
        for i, (e, spread) in enumerate(pat.items):
            if spread:
                raise self.fail(self.err("SpreadInListDestructure", pos))
            if pat.collect and i == ln - 1:
                v = SV(MList(list(lst.items[ln - 1:])))
                self.ev("list_collect")
            else:
                if i >= len(lst.items):
                    raise ModelLimit("list shrank during destructure")
                v = lst.items[i]
            self.bind(e, v, scopes, declare, None, names)

    # ------------------------------------------------------------------ conversions
    def to_bool(self, e, scopes, descr):
        v = self.eval(e, scopes).v
        if v is True or v is False:
            return v
        raise self.fail(self.err("IncorrectType:" + descr, self.p(e), ["bool", type_name(v)]))

    def to_i64(self, e, scopes, descr):
        v = self.eval(e, scopes).v
        if isinstance(v, int) and v is not True and v is not False:
            return v
        raise self.fail(self.err("IncorrectType:" + descr, self.p(e), ["int", type_name(v)]))

    def to_index(self, e, scopes):
        n = self.to_i64(e, scopes, "index")
        if n < 0:
            raise self.fail(self.err("NegativeIndex", self.p(e)))
        return n

    def to_str(self, e, scopes, descr):
        v = self.eval(e, scopes).v
        if not isinstance(v, bytes):
            raise self.fail(self.err("IncorrectType:" + descr, self.p(e), ["string", type_name(v)]))
        try:
            return v.decode("utf-8")
        except UnicodeDecodeError:
            raise self.fail(self.err("StringConstructionFailed", self.p(e)))

    # ------------------------------------------------------------------ expressions
    def eval(self, e, scopes):
        self.tick()
        pos = self.p(e)
        e = unparen(e)
        t = type(e)
        if t is A.Int:
            return SV(e.n)
        if t is A.Var:
            v = self.lookup(e.name, scopes, pos or (self.r.slotpos.get(id(e)) if self.r is not None else None))
            if v is None:
                raise self.fail(self.err("Undefined", pos, [e.name], pinned=True))
            return v
        if t is A.Str or t is A.StrLit:
            return SV(e.s.encode("utf-8"))
        if t is A.Null:
            return SV(None)
        if t is A.Bool:
            return SV(e.b)
        if t is A.Bin:
            l = self.eval(e.l, scopes)
            r = self.eval(e.r, scopes)
            return SV(self.binop(e.op, self.op(e), l.v, r.v))
        if t is A.Call:
            return self.call(e, pos, scopes)
        if t is A.ListE:
            if e.collect:
                raise self.fail(self.err("ListCollectOutsideDestructure", pos))
            return SV(MList(self.items(e.items, scopes)))
        if t is A.Index:
            src = self.eval(e.e, scopes)
            v = src.v
            if isinstance(v, bytes):
                i = self.to_index(e.i, scopes)
                if i >= len(v):
                    raise self.fail(self.err("OutOfStringBounds", pos))
                return SV(v[i:i + 1])
            if isinstance(v, MList):
                i = self.to_index(e.i, scopes)
                if i >= len(v.items):
                    raise self.fail(self.err("OutOfListBounds", pos))
                return v.items[i]
            if isinstance(v, MObj):
                k = self.to_str(e.i, scopes, "property")
                if k not in v.props:
                    raise self.fail(self.err("PropNotFound", pos, [k]))
                return SV(v.props[k].v, v)
            raise self.fail(self.err("ValueNotIndexable", pos))
        if t is A.RangeIndex:
            a = self.to_index(e.a, scopes) if e.a is not None else None
            b = self.to_index(e.b, scopes) if e.b is not None else None
            v = self.eval(e.e, scopes).v
            if isinstance(v, bytes):
                n = len(v)
                a = 0 if a is None else a
                b = n if b is None else b
                if a > b or b > n:
                    raise self.fail(self.err("RangeOutOfStringBounds", pos))
                return SV(v[a:b])
            if isinstance(v, MList):
                n = len(v.items)
                a = 0 if a is None else a
                b = n if b is None else b
                if a > b or b > n:
                    raise self.fail(self.err("RangeOutOfListBounds", pos))
                self.ev("range_read")
                return SV(MList(list(v.items[a:b])))
            raise self.fail(self.err("ValueNotRangeIndexable", pos))
        if t is A.Range:
            a = self.to_i64(e.a, scopes, "range start")
            b = self.to_i64(e.b, scopes, "range end")
            if b - a > 100000:
                raise ModelLimit("huge range")
            self.tick(max(0, b - a))
            return SV(MList([SV(i) for i in range(a, b)]))
        if t is A.ObjectE:
            props = {}
            for pr in e.props:
                if isinstance(pr, A.Pair):
                    k = self.to_str(pr.k, scopes, "property name")
                    v = self.eval(pr.v, scopes)
                    props[k] = v
                else:
                    if pr.collect:
                        raise self.fail(self.err("ObjectCollectOutsideDestructure", pos))
                    if pr.spread:
                        v = self.eval(pr.e, scopes).v
                        if not isinstance(v, MObj):
                            raise self.fail(self.err("SpreadNonObjectInObject", self.p(pr.e), [type_name(v)]))
                        for k in sorted(v.props, key=key_order):
                            props[k] = v.props[k]
                    else:
                        pe = unparen(pr.e)
                        if not isinstance(pe, A.Var):
                            raise self.fail(self.err("ObjectPropShorthandNotVar", self.p(pr.e)))
                        v = self.lookup(pe.name, scopes, self.p(pr.e))
                        if v is None:
                            raise self.fail(self.err("Undefined", self.p(pr.e), [pe.name], pinned=True))
                        props[pe.name] = v
            return SV(MObj(props))
        if t is A.Prop:
            src = self.eval(e.e, scopes).v
            if e.type_prop:
                if src is None:
                    raise self.fail(self.err("TypeFunctionOnNull", pos))
                ns = {"type": MBuiltin(TYPE_NS[type_name(src)] + "->type", self.b_type)}
                if isinstance(src, bytes):
                    ns["len"] = MBuiltin("str->len", self.b_len)
                if e.name not in ns:
                    raise self.fail(self.err("TypeFunctionNotFound", pos, [e.name, type_name(src)]))
                return SV(ns[e.name], src if src is not None else NULLSRC)
            if not isinstance(src, MObj):
                raise self.fail(self.err("PropAccessOnNonObject", pos, [type_name(src)]))
            if e.name not in src.props:
                raise self.fail(self.err("PropNotFound", pos, [e.name]))
            return SV(src.props[e.name].v, src)
        if t is A.FuncE:
            return SV(MFunc(None, e.params, e.collect, e.body, list(scopes)))
        if t is A.IStr:
            return SV(self.interpolate(e, pos, scopes))
        raise TypeError(e)

    def items(self, items, scopes):
        out = []
        for e, spread in items:
            v = self.eval(e, scopes)
            if not spread:
                out.append(v)
                continue
            if not isinstance(v.v, MList):
                raise self.fail(self.err("SpreadNonListInList", self.p(e), [type_name(v.v)]))
            out.extend(v.v.items)
            if len(out) > self.max_size:
                raise ModelLimit("list size")
            self.tick(len(v.v.items) >> 3)
        return out

    def interpolate(self, e, pos, scopes):
        out = []
        offset = 0          # characters of decoded text so far
        for part in e.parts:
            if isinstance(part, tuple):
                part = part[1]
            if isinstance(part, str):
                out.append(part.encode("utf-8"))
                offset += len(part)
                continue
            # (mirrors the implementation: string position + slot offset + 4; not a
            # position any property pins)
            slot_pos = (pos[0], pos[1] + offset + 4) if pos else None
            if isinstance(part, A.RawSlot):
                raise self.fail(self.err("SlotParseFailed", slot_pos))
            try:
                v = self.eval(part, scopes).v
            except SeedError as err:
                err.kind = "Slot:" + err.kind
                err.pos = slot_pos
                err.pinned = False
                raise
            if not isinstance(v, bytes):
                raise self.fail(self.err("InterpolatedValueNotString", slot_pos, [type_name(v)]))
            try:
                v.decode("utf-8")
            except UnicodeDecodeError:
                raise self.fail(self.err("StringConstructionFailed", slot_pos))
            out.append(v)
            offset += part_len(part)
        res = b"".join(out)
        if len(res) > self.max_size:
            raise ModelLimit("string size")
        self.tick(len(res) >> 6)
        return res

    # ------------------------------------------------------------------ operators
    def binop(self, op, oppos, a, b):
        self.ev("binop")
        ta, tb = type_name(a), type_name(b)

        def bad():
            return self.fail(self.err("InvalidOpTypes", oppos, [op, ta, tb], pinned=True))

        def ovf():
            return self.fail(self.err("IntOverflow", oppos, [a, op, b], pinned=True))

        if op in ("==", "!="):
            r = self.eq(a, b, op, oppos, 0)
            return r if op == "==" else (not r)
        if op in ("===", "!=="):
            same = None
            if isinstance(a, MList) and isinstance(b, MList):
                same = a is b
            elif isinstance(a, MObj) and isinstance(b, MObj):
                same = a is b
            elif isinstance(a, MFunc) and isinstance(b, MFunc):
                same = a is b
            if same is None:
                raise bad()
            return same if op == "===" else (not same)
        if op == "+":
            if ta == "int" and tb == "int":
                r = a + b
                if r > I64_MAX or r < I64_MIN:
                    raise ovf()
                return r
            if ta == "string" and tb == "string":
                if len(a) + len(b) > self.max_size:
                    raise ModelLimit("string size")
                self.tick((len(a) + len(b)) >> 6)
                return a + b
            if ta == "list" and tb == "list":
                self.ev("concat")
                if len(a.items) + len(b.items) > self.max_size:
                    raise ModelLimit("list size")
                self.tick((len(a.items) + len(b.items)) >> 3)
                return MList(list(a.items) + list(b.items))
            raise bad()
        if op in ("-", "*", "/", "%"):
            if not (ta == "int" and tb == "int"):
                raise bad()
            if op == "-":
                r = a - b
            elif op == "*":
                r = a * b
            else:
                if b == 0:
                    raise ovf()
                q = abs(a) // abs(b)
                if (a < 0) != (b < 0):
                    q = -q
                r = q if op == "/" else a - q * b
            if r > I64_MAX or r < I64_MIN:
                raise ovf()
            return r
        if op in ("&&", "||"):
            if not (ta == "bool" and tb == "bool"):
                raise bad()
            return (a and b) if op == "&&" else (a or b)
        if op in ("<", "<=", ">", ">="):
            if not (ta == "int" and tb == "int"):
                raise bad()
            return {"<": a < b, "<=": a <= b, ">": a > b, ">=": a >= b}[op]
        raise ValueError(op)

    def eq(self, a, b, op, oppos, depth):
        self.tick()
        if depth > self.max_nest:
            raise ModelLimit("nesting")
        ta, tb = type_name(a), type_name(b)
        if ta != tb or ta == "func":
            raise self.fail(self.err("InvalidEqOpTypes", oppos, [op, ta, tb], pinned=True))
        if ta in ("null", "bool", "int", "string"):
            return a == b
        if a is b:
            return True
        if ta == "list":
            if len(a.items) != len(b.items):
                return False
            for x, y in zip(list(a.items), list(b.items)):
                if not self.eq(x.v, y.v, op, oppos, depth + 1):
                    return False
            return True
        if len(a.props) != len(b.props):
            return False
        for k in sorted(a.props, key=key_order):
            if k not in b.props:
                return False
            if not self.eq(a.props[k].v, b.props[k].v, op, oppos, depth + 1):
                return False
        return True

    # ------------------------------------------------------------------ calls
    def call(self, e, pos, scopes):
        args = self.items(e.args, scopes)
        fv = self.eval(e.f, scopes)
        f = fv.v
        if isinstance(f, MBuiltin):
            this = None if fv.src is None else (None if fv.src is NULLSRC else fv.src)
            has_this = fv.src is not None
            return f.fn(pos, has_this, this, args)
        if not isinstance(f, MFunc):
            raise self.fail(self.err("CannotCallNonFunc", pos, [type_name(f)], pinned=True))
        np = len(f.params)
        got = len(args)
        if f.collect:
            if np - 1 > got:
                raise self.fail(self.err("TooFewArgs", pos, [np - 1, got], pinned=True))
        elif np != got:
            raise self.fail(self.err("ArgNumMismatch", pos, [np, got], pinned=True))
        if len(self.stack) >= self.max_depth:
            raise ModelLimit("call depth")
        self.stack.append((pos, f.name if f.name is not None else "<unnamed function>"))
        self.depth_seen = max(self.depth_seen, len(self.stack))
        self.ev("call")
        try:
            sc = list(f.closure) + [{}]
            names_unused = None
            for i, prm in enumerate(f.params):
                if f.collect and i == np - 1:
                    v = SV(MList(list(args[np - 1:])))
                    self.ev("rest_param")
                else:
                    v = args[i]
                self.bind(prm, v, sc, True, None, None)
            if fv.src is not None:
                self.bind_name("this", (0, 0), SV(fv.src), sc, True, None, set())
                self.ev("this_bound")
            try:
                self.exec_seq(f.body, sc)
                ret = SV(None)
            except _Return as r:
                ret = r.sv
            except _Break as b:
                raise self.fail(self.err("BreakOutsideLoop", b.pos))
            except _Continue as c:
                raise self.fail(self.err("ContinueOutsideLoop", c.pos))
        finally:
            self.stack.pop()
        return ret

    # ------------------------------------------------------------------ builtins
    def b_print(self, pos, has_this, this, args):
        if len(args) != 1:
            raise self.fail(self.err("BuiltinArgs", pos, [], pinned=True))
        if has_this:
            raise self.fail(self.err("Dev", pos))
        try:
            s = render(args[0].v, self, 0)
        except UnicodeDecodeError:
            raise self.fail(self.err("BuiltinFuncErr", pos, [], pinned=True))
        data = s + b"\n"
        self.out_len += len(data)
        if self.out_len > self.max_out:
            raise ModelLimit("output size")
        self.out.append(data)
        self.ev("print")
        return SV(None)

    def b_type(self, pos, has_this, this, args):
        if len(args) != 0:
            raise self.fail(self.err("BuiltinArgs", pos, [], pinned=True))
        if not has_this:
            raise self.fail(self.err("Dev", pos))
        return SV(type_name(this).encode())

    def b_len(self, pos, has_this, this, args):
        if len(args) != 0:
            raise self.fail(self.err("BuiltinArgs", pos, [], pinned=True))
        if not has_this:
            raise self.fail(self.err("Dev", pos))
        if not isinstance(this, bytes):
            raise self.fail(self.err("Dev", pos))
        try:
            this.decode("utf-8")
        except UnicodeDecodeError:
            raise self.fail(self.err("BuiltinFuncErr", pos, [], pinned=True))
        return SV(len(this))


class _NullSrc:
    pass


NULLSRC = _NullSrc()
TYPE_NS = {"bool": "bool", "int": "int", "string": "str", "list": "list", "object": "object", "func": "func"}


def unparen(e):
    while isinstance(e, A.Paren):
        e = e.e
    return e


def part_len(part):
    """Number of decoded characters a slot occupies: `${` + text + `}`."""
    from . import printer
    if isinstance(part, A.RawSlot):
        return len(part.text) + 3
    sub = printer._Emitter(printer.Layout(), inline=True)
    sub.expr(part, 1)
    return len(printer._inline_text(sub.items)) + 3


def render(v, interp=None, depth=0):
    """Canonical rendering of C19 (bytes)."""
    if interp is not None:
        interp.tick()
        if depth > interp.max_nest:
            raise ModelLimit("nesting")
    if v is None:
        return b"<null>"
    if v is True:
        return b"true"
    if v is False:
        return b"false"
    if isinstance(v, int):
        return str(v).encode()
    if isinstance(v, bytes):
        v.decode("utf-8")
        return v
    if isinstance(v, MList):
        out = [b"[\n"]
        for it in v.items:
            r = render(it.v, interp, depth + 1).replace(b"\n", b"\n    ")
            out.append(b"    " + r + b",\n")
        out.append(b"]")
        return b"".join(out)
    if isinstance(v, MObj):
        out = [b"{\n"]
        for k in sorted(v.props, key=key_order):
            r = render(v.props[k].v, interp, depth + 1).replace(b"\n", b"\n    ")
            out.append(b'    "' + k.encode("utf-8") + b'": ' + r + b",\n")
        out.append(b"}")
        return b"".join(out)
    if isinstance(v, MBuiltin):
        return ("<built-in function '%s'>" % v.name).encode()
    if isinstance(v, MFunc):
        if v.name is None:
            return b"<function 'None'>"
        return ('<function \'Some("%s")\'>' % v.name).encode()
    raise TypeError(v)


def run(stmts, rendered, **kw):
    return Interp(rendered, **kw).run(stmts)


def heap_shape(values):
    """Canonical description of the heap graph reachable from `values` (model values):
    cells numbered by first visit, so two runs reach the same shape iff the strings match."""
    ids = {}
    out = []

    def visit(v):
        if isinstance(v, MList):
            if id(v) in ids:
                return "#%d" % ids[id(v)]
            ids[id(v)] = len(ids)
            return "L%d[%s]" % (ids[id(v)], ",".join(visit(x.v) for x in v.items))
        if isinstance(v, MObj):
            if id(v) in ids:
                return "#%d" % ids[id(v)]
            ids[id(v)] = len(ids)
            return "O%d{%s}" % (ids[id(v)], ",".join("%s:%s" % (k, visit(v.props[k].v)) for k in sorted(v.props, key=key_order)))
        if isinstance(v, (MFunc, MBuiltin)):
            return "fn"
        return type_name(v)[0]
    for v in values:
        out.append(visit(v))
    return "|".join(out)
