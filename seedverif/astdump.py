"""S-expression of a sast tree in exactly the format of the `--verif-ast` hook."""

import re

from . import sast as A

_POS = re.compile(r"@\d+:\d+")


def strip_pos(s):
    return _POS.sub("", s)


def _hex(s):
    return s.encode("utf-8").hex()


class Dumper:
    def __init__(self, rendered):
        self.pos = rendered.pos
        self.oppos = rendered.oppos
        self.r = rendered

    def at(self, n):
        p = self.pos.get(id(n))
        return "@%d:%d" % p if p else "@?:?"

    def opat(self, n):
        p = self.oppos.get(id(n))
        return "@%d:%d" % p if p else "@?:?"

    def prog(self, stmts):
        return "(Prog%s)" % self.block(stmts)

    def block(self, stmts):
        return "".join(" " + self.stmt(s) for s in stmts)

    def stmt(self, s):
        if isinstance(s, A.Block):
            return "(Block%s)" % self.block(s.body)
        if isinstance(s, A.ExprStmt):
            return "(ExprStmt %s)" % self.expr(s.e)
        if isinstance(s, A.Declare):
            return "(Declare %s %s)" % (self.expr(s.l), self.expr(s.r))
        if isinstance(s, A.Assign):
            return "(Assign %s %s)" % (self.expr(s.l), self.expr(s.r))
        if isinstance(s, A.OpAssign):
            return "(OpAssign%s %s %s %s)" % (self.opat(s), A.OP_NAME[s.op], self.expr(s.l), self.expr(s.r))
        if isinstance(s, A.If):
            out = "(If"
            for cond, body in s.branches:
                out += " (Branch %s (Body%s))" % (self.expr(cond), self.block(body))
            if s.els is not None:
                out += " (Else%s)" % self.block(s.els)
            return out + ")"
        if isinstance(s, A.While):
            return "(While %s (Body%s))" % (self.expr(s.cond), self.block(s.body))
        if isinstance(s, A.For):
            return "(For %s %s (Body%s))" % (self.expr(s.l), self.expr(s.it), self.block(s.body))
        if isinstance(s, A.Break):
            return "(Break%s)" % self.opat(s)
        if isinstance(s, A.Continue):
            return "(Continue%s)" % self.opat(s)
        if isinstance(s, A.FuncStmt):
            return "(FuncStmt%s %s (Params%s) %s (Body%s))" % (
                self.opat(s), _hex(s.name), self.exprs(s.params),
                "true" if s.collect else "false", self.block(s.body))
        if isinstance(s, A.Return):
            return "(Return%s %s)" % (self.opat(s), self.expr(s.e))
        raise TypeError(s)

    def exprs(self, es):
        return "".join(" " + self.expr(e) for e in es)

    def items(self, items):
        out = ""
        for e, spread in items:
            out += " (Spread %s)" % self.expr(e) if spread else " " + self.expr(e)
        return out

    def opt(self, e):
        return "-" if e is None else self.expr(e)

    def expr(self, e, at=None):
        if isinstance(e, A.Paren):
            return self.expr(e.e, at or self.at(e))
        at = at or self.at(e)
        b = lambda v: "true" if v else "false"
        if isinstance(e, A.Null):
            return "(Null%s)" % at
        if isinstance(e, A.Bool):
            return "(Bool%s %s)" % (at, b(e.b))
        if isinstance(e, A.Int):
            return "(Int%s %d)" % (at, e.n)
        if isinstance(e, (A.Str, A.StrLit)):
            return "(Str%s %s)" % (at, _hex(e.s))
        if isinstance(e, A.IStr):
            decoded, slots = self.istr(e)
            return "(IStr%s %s [%s])" % (at, _hex(decoded), ";".join("%d-%d" % s for s in slots))
        if isinstance(e, A.Var):
            return "(Var%s %s)" % (at, e.name)
        if isinstance(e, A.Bin):
            return "(Bin%s %s%s %s %s)" % (at, A.OP_NAME[e.op], self.opat(e), self.expr(e.l), self.expr(e.r))
        if isinstance(e, A.ListE):
            return "(List%s %s%s)" % (at, b(e.collect), self.items(e.items))
        if isinstance(e, A.Index):
            return "(Index%s %s %s)" % (at, self.expr(e.e), self.expr(e.i))
        if isinstance(e, A.RangeIndex):
            return "(RangeIndex%s %s %s %s)" % (at, self.expr(e.e), self.opt(e.a), self.opt(e.b))
        if isinstance(e, A.Range):
            return "(Range%s %s %s)" % (at, self.expr(e.a), self.expr(e.b))
        if isinstance(e, A.ObjectE):
            out = "(Object%s" % at
            for p in e.props:
                if isinstance(p, A.Pair):
                    out += " (Pair %s %s)" % (self.expr(p.k), self.expr(p.v))
                else:
                    out += " (Single %s %s %s)" % (b(p.spread), b(p.collect), self.expr(p.e))
            return out + ")"
        if isinstance(e, A.Prop):
            return "(Prop%s %s %s %s)" % (at, b(e.type_prop), e.name, self.expr(e.e))
        if isinstance(e, A.FuncE):
            return "(Func%s (Params%s) %s (Body%s))" % (at, self.exprs(e.params), b(e.collect), self.block(e.body))
        if isinstance(e, A.Call):
            return "(Call%s %s (Args%s))" % (at, self.expr(e.f), self.items(e.args))
        raise TypeError(e)

    def istr(self, e):
        # decoded text and slot offsets are stored on the token by the printer
        return self.r.items[self.r.istr_tok[id(e)]].val


def dump(stmts, rendered):
    return Dumper(rendered).prog(stmts)
