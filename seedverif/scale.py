"""Size ladders: the same small behaviours re-run at sizes around the powers of two.

The generated workloads of the individual checks keep containers, strings, parameter
lists, nesting depths, line and column numbers small (that is what makes bounded
enumeration possible).  A defect that only shows above a threshold (element 17 of a
list, byte 256 of a string, line 300 of a file, the 65th recursive call, the 33rd
parameter) leaves no trace in such a workload.  Every check therefore also runs the
entries of this catalogue that concern its property, at every size of a ladder
0,1,2,3,7,8,9,...,2^k-1,2^k,2^k+1,...; the oracle is the reference model (stdout bytes,
exit class, and for the failing entries the diagnostic position / atoms / stack).

build_case(("scale", name, n)) -> harness case;  run(rep, prop, tier) drives them."""

import random

from . import harness, printer as P, sast as A

V, I, S = A.Var, A.Int, A.Str
pr = A.pr

QUICK = list(range(0, 41)) + [63, 64, 65, 100, 127, 128, 129, 255, 256, 257, 300]
THOROUGH = list(range(0, 140)) + [200, 255, 256, 257, 300, 511, 512, 513, 1000, 1023, 1024, 1025, 2047, 2048, 2049]


def loop(var, n, body):
    """var := 0; while var < n { body; var += 1 }"""
    return [A.Declare(V(var), I(0)), A.While(A.Bin("<", V(var), I(n)), body + [A.OpAssign("+", V(var), I(1))])]


def counted(name, e):
    """print the number of iterations `for _ in e` makes"""
    c = "cnt_" + name
    return [A.Declare(V(c), I(0)), A.For(V("_"), e, [A.OpAssign("+", V(c), I(1))]), pr(V(c))]


def key(j):
    return "k%04d" % j


def perm(n):
    xs = list(range(n))
    random.Random(n * 31 + 7).shuffle(xs)
    return xs


# ----------------------------------------------------------------------------- entries
def list_grow(n):
    st = [A.Declare(V("xs"), A.lst())] + loop("i", n, [A.OpAssign("+", V("xs"), A.lst(A.Bin("*", V("i"), I(3))))])
    st += counted("xs", V("xs")) + [pr(V("xs"))]
    if n > 0:
        st += [pr(A.Index(V("xs"), I(0))), pr(A.Index(V("xs"), I(n - 1))), pr(A.Index(V("xs"), I(n // 2)))]
    h = n // 2
    st += [pr(A.RangeIndex(V("xs"), I(h), None)), pr(A.RangeIndex(V("xs"), None, I(h))),
           pr(A.Bin("==", A.Bin("+", A.RangeIndex(V("xs"), None, I(h)), A.RangeIndex(V("xs"), I(h), None)), V("xs"))),
           A.Declare(V("ys"), A.RangeIndex(V("xs"), None, None))]
    if n > 0:
        st += [A.Assign(A.Index(V("ys"), I(n - 1)), I(-1)), pr(A.Index(V("xs"), I(n - 1))), pr(A.Index(V("ys"), I(n - 1)))]
    st += [A.Declare(A.ListE([(V("every"), False)], True), V("xs")), pr(A.Bin("==", V("every"), V("xs"))), pr(A.Bin("===", V("every"), V("xs")))]
    if n >= 2:
        st += [A.Declare(A.ListE([(V("first"), False), (V("rest"), False)], True), V("xs")), pr(V("first")), pr(A.Index(V("rest"), I(n - 2)))] + counted("rest", V("rest"))
    st += [A.Declare(V("zs"), A.ListE([(V("xs"), True), (V("xs"), True)], False))] + counted("zs", V("zs"))
    if n > 0:
        st += [pr(A.Index(V("zs"), I(2 * n - 1))), pr(A.Index(V("zs"), I(n)))]
        st += [A.Assign(A.RangeIndex(V("zs"), I(n - 1), I(n + 1)), A.lst(S("p"), S("q"))), pr(A.RangeIndex(V("zs"), I(max(0, n - 2)), I(min(2 * n, n + 2))))]
    return st


def list_literal(n):
    st = [A.Declare(V("xs"), A.lst(*[I(j * 2) for j in range(n)])), pr(V("xs"))] + counted("xs", V("xs"))
    st += [A.Declare(V("ys"), A.lst())] + loop("i", n, [A.OpAssign("+", V("ys"), A.lst(A.Bin("+", V("i"), V("i"))))])
    st += [pr(A.Bin("==", V("xs"), V("ys"))), pr(A.Bin("==", A.Bin("+", V("xs"), A.lst(I(0))), V("ys")))]
    if n > 0:
        st += [pr(A.Index(V("xs"), I(n - 1)))]
    return st


def list_oob(n, how):
    st = [A.Declare(V("xs"), A.lst(*[I(j) for j in range(n)])), pr(S("before"))]
    if how == "read":
        st.append(pr(A.Index(V("xs"), I(n))))
    elif how == "write":
        st.append(A.Assign(A.Index(V("xs"), I(n)), I(1)))
    elif how == "opassign":
        st.append(A.OpAssign("+", A.Index(V("xs"), I(n)), I(1)))
    elif how == "range":
        st.append(pr(A.RangeIndex(V("xs"), I(0), I(n + 1))))
    else:
        st.append(A.Assign(A.RangeIndex(V("xs"), I(n), I(n + 1)), A.lst(I(1))))
    return st + [pr(S("WRONG"))]


PIECES = ["a", "é", "b", "✓", "c"]


def str_grow(n):
    st = [A.Declare(V("ps"), A.lst(*[S(p) for p in PIECES])), A.Declare(V("s"), S(""))]
    st += loop("i", n, [A.OpAssign("+", V("s"), A.Index(V("ps"), A.Bin("%", V("i"), I(len(PIECES)))))])
    text = "".join(PIECES[i % len(PIECES)] for i in range(n))
    nb = len(text.encode("utf-8"))
    st += [pr(V("s")), pr(A.Call(A.Prop(V("s"), "len", True), []))] + counted("s", V("s"))
    st += [pr(A.Bin("==", V("s"), S(text)))]
    for k in sorted({0, nb // 2, nb // 3, max(0, nb - 1), nb}):
        st.append(pr(A.Bin("==", A.Bin("+", A.RangeIndex(V("s"), None, I(k)), A.RangeIndex(V("s"), I(k), None)), V("s"))))
    if nb > 0:
        st += [pr(A.Bin("==", A.Index(V("s"), I(0)), S("a")))]
        for k in (nb // 2, nb // 2 + 1, nb // 2 + 2):
            try:
                text.encode("utf-8")[k:].decode("utf-8")
            except UnicodeDecodeError:
                continue          # `->len` wants a well-formed string: use the first cut that does not split a character
            st.append(pr(A.Call(A.Prop(A.Paren(A.RangeIndex(V("s"), I(k), None)), "len", True), [])))
            break
    st += [A.Declare(V("t"), S(""))] + [A.For(A.lst(V("_"), V("ch")), V("s"), [A.OpAssign("+", V("t"), V("ch"))]), pr(A.Bin("==", V("t"), V("s")))]
    st += [pr(A.IStr(["<", V("s"), "|", V("s"), ">"]))]
    return st


def str_literal(n):
    text = "".join(PIECES[(i * 3) % len(PIECES)] if i % 7 == 3 else "xyz"[i % 3] for i in range(n))
    nb = len(text.encode("utf-8"))
    return [A.Declare(V("s"), S(text)), pr(V("s")), pr(A.Call(A.Prop(V("s"), "len", True), [])), pr(A.Bin("==", A.Bin("+", V("s"), S("")), V("s"))),
            pr(A.Bin("==", A.RangeIndex(V("s"), I(0), I(nb)), V("s")))] + counted("s", V("s")) + [pr(A.Index(V("s"), I(nb)))]      # the last read fails: position after a long literal


def interp_slots(n):
    parts = ["<"]
    for j in range(n):
        parts += [V("a") if j % 3 else A.Bin("+", V("b"), S("!")), "|" if j % 2 else "é"]
    parts.append(">")
    return [A.Declare(V("a"), S("A✓")), A.Declare(V("b"), S("bb")), pr(A.IStr(parts)),
            pr(A.Call(A.Prop(A.IStr([A.clone(p) if isinstance(p, A.Node) else p for p in parts]), "len", True), []))]


def obj_literal(n):
    order = perm(n)
    st = [A.Declare(V("o"), A.obj(*[(key(j), I(j)) for j in order])), pr(V("o"))]
    st += [A.For(A.lst(V("k"), V("v")), V("o"), [pr(V("k")), pr(V("v"))])]
    st += [A.Declare(V("o2"), A.ObjectE([A.Single(V("o"), True, False)])), pr(A.Bin("==", V("o"), V("o2"))), pr(A.Bin("===", V("o"), V("o2")))]
    st += [A.Declare(V("o3"), A.obj(*[(key(j), I(j)) for j in range(n)])), pr(A.Bin("==", V("o"), V("o3")))]
    st += [A.Declare(V("found"), I(0)), A.For(A.lst(V("k"), V("v")), V("o3"), [A.If([(A.Bin("==", A.Index(V("o"), V("k")), V("v")), [A.OpAssign("+", V("found"), I(1))])], [pr(V("k"))])]), pr(V("found"))]
    if n > 0:
        last = order[-1]
        st += [pr(A.Index(V("o"), S(key(n - 1)))), pr(A.Prop(V("o"), key(last), False)),
               A.Declare(A.ObjectE([A.Pair(S(key(0)), V("z")), A.Single(V("others"), False, True)]), V("o")), pr(V("z"))] + counted("others", V("others"))
        st += [A.Declare(A.ObjectE([A.Pair(S(key(n - 1)), V("zl")), A.Pair(S(key(n // 2)), V("zm")), A.Single(V("others2"), False, True)]), V("o")), pr(V("zl")), pr(V("zm")), pr(V("others2"))]
        st += [A.Assign(A.Index(V("o3"), S(key(last))), I(-5)), pr(A.Bin("==", V("o"), V("o3")))]
        st += [A.Declare(V("o4"), A.ObjectE([A.Pair(S(key(last)), S("early")), A.Single(V("o"), True, False), A.Pair(S(key(0)), S("late"))])),
               pr(A.Index(V("o4"), S(key(last)))), pr(A.Index(V("o4"), S(key(0))))] + counted("o4", V("o4"))
    return st


def obj_insert(n):
    st = [A.Declare(V("o"), A.obj())]
    for j in perm(n):
        st.append(A.Assign(A.Index(V("o"), S(key(j))), I(j)))
    st += counted("o", V("o")) + [pr(V("o"))]
    for j in perm(n)[: n // 2]:
        st.append(A.OpAssign("+", A.Index(V("o"), S(key(j))), I(1000)))
    st += counted("o_again", V("o")) + [A.For(V("kv"), V("o"), [pr(V("kv"))])]
    return st


def obj_missing(n, how):
    st = [A.Declare(V("o"), A.obj(*[(key(j), I(j)) for j in perm(n)])), pr(S("before"))]
    if how == "index":
        st.append(pr(A.Index(V("o"), S("nope"))))
    elif how == "prop":
        st.append(pr(A.Prop(V("o"), "nope", False)))
    elif how == "pattern":
        st.append(A.Declare(A.ObjectE([A.Pair(S("nope"), V("z"))]), V("o")))
    else:
        st.append(A.OpAssign("+", A.Index(V("o"), S("nope")), I(1)))
    return st + [pr(S("WRONG"))]


def params(n):
    ps = ["p%d" % j for j in range(n)]
    st = [A.FuncStmt("f", [V(p) for p in ps], False, [A.Return(A.lst(*[V(p) for p in ps]))]),
          pr(A.Call(V("f"), [(I(j * 5), False) for j in range(n)])),
          A.Declare(V("xs"), A.lst(*[I(j) for j in range(n)])), pr(A.Call(V("f"), [(V("xs"), True)])),
          A.FuncStmt("g", [V("h"), V("r")], True, [pr(V("h")), A.Return(V("r"))]),
          pr(A.Call(V("g"), [(S("head"), False), (V("xs"), True)])), pr(A.Call(V("g"), [(S("head"), False)] + [(I(j), False) for j in range(n)])),
          pr(A.Bin("===", A.Call(V("g"), [(S("head"), False), (V("xs"), True)]), V("xs")))]
    if n > 0:
        st += [A.FuncStmt("lastp", [V(p) for p in ps], False, [A.Return(V(ps[-1]))]), pr(A.Call(V("lastp"), [(V("xs"), True)])),
               pr(A.Call(V("lastp"), [(A.RangeIndex(V("xs"), None, I(n // 2)), True), (A.RangeIndex(V("xs"), I(n // 2), None), True)]))]
    return st


def params_arity(n, delta):
    ps = ["p%d" % j for j in range(n)]
    return [A.FuncStmt("f", [V(p) for p in ps], False, [pr(S("WRONG"))]), pr(S("before")),
            A.ExprStmt(A.Call(V("f"), [(I(j), False) for j in range(max(0, n + delta))])), pr(S("WRONG"))]


def pattern(n):
    vs = ["v%d" % j for j in range(n)]
    st = [A.Declare(V("xs"), A.lst(*[I(j * 7) for j in range(n)])), A.Declare(A.lst(*[V(v) for v in vs]), V("xs"))]
    if n > 0:
        st += [pr(V(vs[0])), pr(V(vs[-1])), pr(V(vs[n // 2]))]
    st += [A.Declare(V("o"), A.obj(*[(key(j), I(j)) for j in perm(n)])),
           A.Declare(A.ObjectE([A.Pair(S(key(j)), V("w%d" % j)) for j in range(n)]), V("o"))]
    if n > 0:
        st += [pr(V("w0")), pr(V("w%d" % (n - 1)))]
    # one value too many: the pattern does not fit
    st += [pr(S("fits")), A.Assign(A.lst(*[V(v) for v in vs]), A.Bin("+", V("xs"), A.lst(I(0)))), pr(S("WRONG"))]
    return st


def nest_list(d):
    def nested(leaf):
        e = leaf
        for _ in range(d):
            e = A.lst(e)
        return e
    st = [A.Declare(V("x"), nested(I(1))), pr(V("x")), pr(A.Bin("==", V("x"), nested(I(1)))), pr(A.Bin("==", V("x"), nested(I(2))))] + ([pr(A.Bin("===", V("x"), V("x")))] if d else [])
    e = V("x")
    for _ in range(d):
        e = A.Index(e, I(0))
    st += [pr(e)]
    o = I(1)
    for _ in range(d):
        o = A.obj(("k", o))
    e2 = V("y")
    for _ in range(d):
        e2 = A.Prop(e2, "k", False)
    st += [A.Declare(V("y"), o), pr(V("y")), pr(e2)]
    return st


def nest_blocks(d):
    inner = [A.Declare(V("x"), I(d)), pr(V("x")), A.Assign(V("top"), A.Bin("+", V("top"), V("x")))]
    for j in range(d - 1, -1, -1):
        body = [A.Declare(V("x"), I(j)), pr(V("x"))] + [[A.Block(inner)], [A.If([(A.Bool(True), inner)], None)], [A.For(V("_"), A.lst(I(0)), inner)]][j % 3] + [pr(V("x"))]
        inner = body
    return [A.Declare(V("top"), I(1000))] + inner + [pr(V("top")), pr(V("x"))]


def closures(n):
    st = [A.Declare(V("fs"), A.lst())]
    st += [A.For(A.lst(V("i"), V("v")), A.lst(*[I(j * 10) for j in range(n)]),
                 [A.Declare(V("loc"), A.Bin("+", V("v"), V("i"))), A.OpAssign("+", V("fs"), A.lst(A.FuncE([], False, [A.OpAssign("+", V("loc"), I(1)), A.Return(V("loc"))])))])]
    st += [A.For(A.lst(V("_"), V("f")), V("fs"), [A.ExprStmt(A.call("f"))]), A.Declare(V("got"), A.lst()),
           A.For(A.lst(V("_"), V("f")), V("fs"), [A.OpAssign("+", V("got"), A.lst(A.call("f")))]), pr(V("got"))]
    return st


def closure_chain(d):
    names = ["a%d" % j for j in range(d + 1)]
    total = V(names[0])
    for nm in names[1:]:
        total = A.Bin("+", total, V(nm))
    body = [A.Declare(V(names[d]), I(d)), A.Return(total)]
    for j in range(d - 1, -1, -1):
        body = [A.Declare(V(names[j]), I(j * 100)), A.FuncStmt("f%d" % (j + 1), [], False, body), A.Return(A.call("f%d" % (j + 1)))]
    return [A.FuncStmt("f0", [], False, body), pr(A.call("f0")), pr(A.call("f0"))]


def recursion(d):
    return [A.FuncStmt("r", [V("n")], False, [A.If([(A.Bin("==", V("n"), I(0)), [A.Return(I(0))])], None), A.Return(A.Bin("+", I(1), A.call("r", A.Bin("-", V("n"), I(1)))))]),
            pr(A.call("r", I(d))),
            A.FuncStmt("even", [V("n")], False, [A.If([(A.Bin("==", V("n"), I(0)), [A.Return(A.Bool(True))])], None), A.Return(A.call("odd", A.Bin("-", V("n"), I(1))))]),
            A.FuncStmt("odd", [V("n")], False, [A.If([(A.Bin("==", V("n"), I(0)), [A.Return(A.Bool(False))])], None), A.Return(A.call("even", A.Bin("-", V("n"), I(1))))]),
            pr(A.call("even", I(d)))]


def recursion_error(d):
    return [A.FuncStmt("r", [V("n")], False, [A.If([(A.Bin("==", V("n"), I(0)), [A.Return(A.Bin("+", A.Null(), I(1)))])], None), A.Return(A.call("r", A.Bin("-", V("n"), I(1))))]),
            pr(S("before")), pr(A.call("r", I(d))), pr(S("WRONG"))]


def loop_iter(n):
    st = [A.Declare(V("odd"), I(0)), A.Declare(V("i"), I(0)),
          A.While(A.Bool(True), [A.OpAssign("+", V("i"), I(1)), A.If([(A.Bin(">", V("i"), I(n)), [A.Break()])], None),
                                 A.If([(A.Bin("==", A.Bin("%", V("i"), I(2)), I(0)), [A.Continue()])], None), A.OpAssign("+", V("odd"), V("i"))]),
          pr(V("odd")), pr(V("i")),
          A.Declare(V("sum"), I(0)), A.For(A.lst(V("k"), V("v")), A.Range(I(5), I(5 + n)), [A.OpAssign("+", V("sum"), A.Bin("*", V("k"), V("v")))]), pr(V("sum")),
          A.Declare(V("cells"), I(0)),
          A.For(V("_"), A.Range(I(0), I(n)), [A.For(V("_"), A.Range(I(0), I(3)), [A.OpAssign("+", V("cells"), I(1))]), A.If([(A.Bin(">=", V("cells"), I(3 * (n - 1))), [A.Continue()])], None)]),
          pr(V("cells")),
          A.FuncStmt("find", [V("xs"), V("want")], False, [A.For(A.lst(V("i"), V("v")), V("xs"), [A.If([(A.Bin("==", V("v"), V("want")), [A.Return(V("i"))])], None)]), A.Return(I(-1))]),
          A.Declare(V("xs"), A.lst(*[I(j * j) for j in range(n)])), pr(A.call("find", V("xs"), I((n - 1) * (n - 1)))), pr(A.call("find", V("xs"), I(-7)))]
    return st


def elseif(n, taken):
    arms = []
    for j in range(n + 1):
        arms.append((A.Bin("==", V("sel"), I(j)), [pr(S("arm %d" % j))]))
    sel = {"first": 0, "last": n, "middle": n // 2, "none": n + 1}[taken]
    return [A.Declare(V("sel"), I(sel)), A.If(arms, [pr(S("else"))]), pr(S("after"))]


def range_assign(n, src):
    """xs[1:1+n] = <n items>: every element of the range is replaced, nothing else"""
    xs = [j for j in range(n + 2)]
    if src == "list":
        ys, ye = [100 + j for j in range(n)], A.lst(*[I(100 + j) for j in range(n)])
    else:
        text = "".join("abc"[j % 3] for j in range(n))
        ys, ye = list(text), S(text)
    st = [A.Declare(V("xs"), A.lit(xs)), A.Declare(V("ys"), ye)]
    if n > 0:
        st += [A.Assign(A.RangeIndex(V("xs"), I(1), I(1 + n)), V("ys")), pr(V("xs")), A.Assign(A.RangeIndex(V("xs"), None, I(n)), A.RangeIndex(V("xs"), I(2), None)), pr(V("xs")),
               A.Assign(A.RangeIndex(V("xs"), I(2), None), V("ys")), pr(V("xs"))]
    st += [pr(S("length mismatch next")), A.Assign(A.RangeIndex(V("xs"), I(0), I(n + 1)), V("ys")), pr(S("WRONG"))]
    return st


HUGE = [2 ** 31 - 1, 2 ** 31, 2 ** 32 - 1, 2 ** 32, 2 ** 32 + 1, 2 ** 53, 2 ** 62, 2 ** 63 - 2, 2 ** 63 - 1]


def huge_index(_n, h, form):
    xs = lambda: V("xs")
    st = [A.Declare(V("xs"), A.lst(I(1), I(2), I(3))), A.Declare(V("s"), S("abc")), A.Declare(V("h"), I(h)), pr(S("before"))]
    e = {"read": lambda: pr(A.Index(xs(), I(h))), "read_var": lambda: pr(A.Index(xs(), V("h"))), "end": lambda: pr(A.RangeIndex(xs(), I(0), I(h))), "start": lambda: pr(A.RangeIndex(xs(), I(h), None)),
         "str": lambda: pr(A.Index(V("s"), I(h))), "str_end": lambda: pr(A.RangeIndex(V("s"), I(1), V("h"))), "write": lambda: A.Assign(A.Index(xs(), I(h)), I(0)),
         "range_write": lambda: A.Assign(A.RangeIndex(xs(), I(0), I(h)), A.lst(I(7), I(8), I(9))), "both": lambda: pr(A.RangeIndex(xs(), V("h"), V("h")))}[form]()
    return st + [e, pr(S("WRONG"))]


def obj_dup(n):
    """a literal in which keys repeat (the later entry wins) and spreads overlap"""
    half = n // 2 + 1
    order = perm(n)
    ents = [(key(j % half), I(pos)) for pos, j in enumerate(order)]
    st = [A.Declare(V("o"), A.obj(*ents)), pr(V("o"))]
    a = [(key(j), I(j)) for j in perm(half)]
    b = [(key(j), I(1000 + j)) for j in perm(n) if j % 2 == 0]
    st += [A.Declare(V("a"), A.obj(*a)), A.Declare(V("b"), A.obj(*b)), pr(A.ObjectE([A.Single(V("a"), True, False), A.Single(V("b"), True, False)])),
           pr(A.ObjectE([A.Single(V("b"), True, False), A.Pair(S(key(0)), S("mid")), A.Single(V("a"), True, False)])),
           pr(A.Bin("==", A.ObjectE([A.Single(V("a"), True, False), A.Single(V("b"), True, False), A.Single(V("a"), True, False)]), A.ObjectE([A.Single(V("b"), True, False), A.Single(V("a"), True, False)])))]
    return st


def pattern_dup(n, how, where="decl"):
    names = ["v%d" % j for j in range(n)]
    rep_at = {"last": n - 1, "first": 0, "mid": n // 2}[how] if n else 0
    if n == 0:
        return [pr(S("before")), A.Declare(A.lst(V("x"), V("x")), A.lst(I(1), I(2))), pr(S("WRONG"))]
    pat = lambda: A.lst(*([V(v) for v in names] + [V(names[rep_at])]))
    src = lambda: A.lst(*[I(j) for j in range(n + 1)])
    if where == "assign":
        return [A.Declare(V(v), A.Null()) for v in names] + [pr(S("before")), A.Assign(pat(), src()), pr(S("WRONG"))]
    if where == "for":
        return [pr(S("before")), A.For(A.lst(V("_"), pat()), A.lst(src()), [pr(S("WRONG"))]), pr(S("WRONG"))]
    if where == "param":
        return [pr(S("before")), A.FuncStmt("f", [pat()], False, [pr(S("WRONG"))]), A.ExprStmt(A.call("f", src())), pr(S("WRONG"))]
    if where == "params":
        return [pr(S("before")), A.FuncStmt("f", [V(v) for v in names] + [V(names[rep_at])], False, [pr(S("WRONG"))]), A.ExprStmt(A.Call(V("f"), [(src(), True)])), pr(S("WRONG"))]
    if where == "object":
        opat = A.ObjectE([A.Pair(S(key(j)), V(names[j])) for j in range(n)] + [A.Pair(S(key(n)), V(names[rep_at]))])
        return [A.Declare(V(v), A.Null()) for v in names] + [pr(S("before")), A.Assign(opat, A.obj(*[(key(j), I(j)) for j in range(n + 1)])), pr(S("WRONG"))]
    return [pr(S("before")), A.Declare(pat(), src()), pr(S("WRONG"))]


def interp_len(n):
    """text of n characters (multi-byte ones included) followed / preceded / surrounded by a slot"""
    text = "".join(("é" if j % 5 == 2 else ("✓" if j % 11 == 7 else "abcdefghij"[j % 10])) for j in range(n))
    return [A.Declare(V("a"), S("<A>")), pr(A.IStr([text, V("a")])), pr(A.IStr([V("a"), text])), pr(A.IStr([text[: n // 2], V("a"), text[n // 2:], V("a")])),
            pr(A.Call(A.Prop(A.IStr([text, V("a"), text]), "len", True), [])), pr(A.IStr([text, V("missing")])), pr(S("WRONG"))]


def name_coincidence(_n):
    """names that coincide with other names in scope-legal ways"""
    return [A.Declare(V("say"), V("print")), A.FuncStmt("count", [V("xs")], False, [A.Declare(V("count"), I(0)), A.For(V("_"), V("xs"), [A.OpAssign("+", V("count"), I(1))]), A.Return(V("count"))]),
            pr(A.call("count", A.lst(I(1), I(2)))), pr(A.call("count", A.lst())),
            A.FuncStmt("same", [V("same")], False, [A.Return(A.Bin("+", V("same"), I(1)))]), pr(A.call("same", I(1))), pr(A.call("same", I(2))),
            A.FuncStmt("outer", [], False, [A.FuncStmt("outer", [], False, [A.Return(S("inner outer"))]), A.Return(A.call("outer"))]), pr(A.call("outer")),
            A.Declare(V("o"), A.obj(("o", I(1)), ("len", I(2)), ("type", I(3)), ("print", I(4)))), pr(A.Prop(V("o"), "o", False)), pr(A.Prop(V("o"), "len", False)), pr(A.Call(A.Prop(V("o"), "type", True), [])),
            A.Block([A.Declare(V("print"), S("shadow")), A.Declare(V("len"), I(1)), A.Declare(V("type"), I(2)), A.Declare(V("this"), I(3)), pr_via("say", V("print")), pr_via("say", V("this"))]),
            A.FuncStmt("rec", [V("n")], False, [A.If([(A.Bin("==", V("n"), I(0)), [A.Declare(V("rec"), S("local")), A.Return(V("rec"))])], None), A.Return(A.call("rec", A.Bin("-", V("n"), I(1))))]), pr(A.call("rec", I(3))),
            A.For(V("i"), A.lst(I(1)), [A.For(V("i"), A.lst(I(2)), [pr(V("i"))]), pr(V("i"))]),
            A.Declare(V("k"), S("k")), pr(A.ObjectE([A.Single(V("k"), False, False), A.Pair(V("k"), V("k"))])),
            # a property that happens to be called `_`, `this`, or like a type function is an ordinary property
            A.Declare(V("u"), A.obj(("_", I(1)), ("this", I(2)))), A.Assign(A.Prop(V("u"), "_", False), I(10)), A.OpAssign("+", A.Prop(V("u"), "_", False), I(5)), pr(A.Prop(V("u"), "_", False)),
            pr(A.Index(V("u"), S("_"))), A.Assign(A.Prop(V("u"), "this", False), I(20)), A.Assign(A.Prop(V("u"), "len", False), I(30)), A.Assign(A.Prop(V("u"), "type", False), S("mine")),
            pr(V("u")), pr(A.Prop(V("u"), "type", False)), pr(A.Call(A.Prop(V("u"), "type", True), [])),
            A.Declare(A.ObjectE([A.Pair(S("this"), V("th")), A.Pair(S("type"), V("ty")), A.Single(V("more"), False, True)]), V("u")), pr(A.lst(V("th"), V("ty"))), pr(V("more"))]


def typefn_named_missing(_n, name, how):
    """`.name` reads a property, never a type function: a missing `type` / `len` property is missing"""
    host = {"object": lambda: A.obj(("a", I(1))), "empty": lambda: A.obj(), "nested": lambda: A.Prop(A.obj(("inner", A.obj(("a", I(1))))), "inner", False)}[how]
    return [A.Declare(V("o"), host()), pr(S("before")), pr(A.Prop(V("o"), name, False)), pr(S("WRONG"))]


def pr_via(f, e):
    return A.ExprStmt(A.call(f, e))


def range_twice(n):
    """the same range expression evaluated twice gives two independent containers"""
    return [A.Declare(V("r1"), A.Range(I(0), I(n))), A.Declare(V("r2"), A.Range(I(0), I(n))), pr(A.Bin("===", V("r1"), V("r2"))), pr(A.Bin("==", V("r1"), V("r2")))] + \
        ([A.Assign(A.Index(V("r1"), I(n - 1)), I(-1)), pr(A.Index(V("r2"), I(n - 1))), A.Declare(V("r3"), A.Range(I(0), I(n))), pr(A.Index(V("r3"), I(n - 1))), pr(A.Bin("==", V("r2"), V("r3"))),
          pr(A.Bin("==", V("r1"), V("r3")))] if n > 0 else []) + \
        [A.FuncStmt("mk", [], False, [A.Return(A.Range(I(3), I(3 + n)))]), A.Declare(V("m1"), A.call("mk")), A.Declare(V("m2"), A.call("mk")), pr(A.Bin("===", V("m1"), V("m2")))] + counted("m1", V("m1"))


SLOT_TEXTS = ["", " ", "   ", "\t", "1 +", ")", "x y", "+", "fn", "1 1", "a :=", ".", ",", "x..", ":", "(", "[1", "é", "1 +é", "#", ";", "x;", "&"]


def slot_parse_errors(_n, text, where):
    """an interpolation slot whose text is not an expression: a located diagnostic when (and only when) it is evaluated"""
    bad = lambda: A.IStr(["é", A.RawSlot(text), " tail"])
    if where == "top":
        return [pr(S("before")), pr(bad()), pr(S("WRONG"))]
    if where == "fn":
        return [A.FuncStmt("f", [V("q")], False, [pr(S("in f")), A.Return(bad())]), pr(S("before")), pr(A.call("f", I(1))), pr(S("WRONG"))]
    if where == "second":
        return [A.Declare(V("c"), I(0)), A.FuncStmt("t", [], False, [A.OpAssign("+", V("c"), I(1)), pr(S("first slot ran")), A.Return(S("x"))]), pr(S("before")),
                pr(A.IStr(["<", A.call("t"), "|", A.RawSlot(text), ">"])), pr(S("WRONG"))]
    # never evaluated: no diagnostic
    return [A.FuncStmt("f", [], False, [A.Return(bad())]), A.If([(A.Bool(False), [pr(bad())])], None), pr(S("never evaluated"))]


def istr_keys(_n):
    """an interpolated string wherever a key is computed: literal entries, patterns, index reads and writes"""
    k = lambda: A.IStr(["k_", V("n")])
    return [A.Declare(V("n"), S("7")), A.Declare(V("o"), A.ObjectE([A.Pair(k(), I(1)), A.Pair(S("plain"), I(2)), A.Pair(A.IStr(["k_", V("n"), V("n")]), I(3))])), pr(V("o")),
            pr(A.Index(V("o"), k())), A.Assign(A.Index(V("o"), k()), I(5)), A.OpAssign("+", A.Index(V("o"), k()), I(10)), pr(A.Index(V("o"), S("k_7"))),
            A.Declare(A.ObjectE([A.Pair(k(), V("got")), A.Single(V("others"), False, True)]), V("o")), pr(V("got")), pr(V("others")),
            A.Assign(V("n"), S("8")), A.Assign(A.Index(V("o"), k()), S("new")), pr(V("o")), pr(A.Index(A.obj(("k_8", S("lit"))), k())),
            A.Declare(V("xs"), A.lst(I(10), I(20))), pr(A.Index(V("xs"), A.Call(A.Prop(A.IStr([V("n")]), "len", True), []))),
            pr(A.Bin("==", A.ObjectE([A.Pair(k(), I(1))]), A.obj(("k_8", I(1))))), pr(S("missing next")), pr(A.Index(V("o"), A.IStr(["k_", V("n"), "!"]))), pr(S("WRONG"))]


def self_targets(_n):
    """destructuring whose targets are slots of the very container being destructured (swap idioms)"""
    return [A.Declare(V("xs"), A.lst(I(1), I(2), I(3))), A.Assign(A.lst(A.Index(V("xs"), I(1)), A.Index(V("xs"), I(0)), V("_")), V("xs")), pr(V("xs")),
            A.Declare(V("p"), A.obj(("x", I(1)), ("y", I(2)))), A.Assign(A.ObjectE([A.Pair(S("x"), A.Prop(V("p"), "y", False)), A.Pair(S("y"), A.Prop(V("p"), "x", False))]), V("p")), pr(V("p")),
            A.Assign(A.ObjectE([A.Pair(S("x"), A.Index(V("p"), S("z"))), A.Single(V("_"), False, True)]), V("p")), pr(V("p")),
            A.Declare(V("a"), I(1)), A.Declare(V("b"), I(2)), A.Assign(A.lst(V("a"), V("b")), A.lst(V("b"), V("a"))), pr(A.lst(V("a"), V("b"))),
            A.Declare(V("ys"), A.lst(A.lst(I(1)), A.lst(I(2)))), A.Assign(A.lst(A.Index(A.Index(V("ys"), I(1)), I(0)), A.Index(A.Index(V("ys"), I(0)), I(0))), A.lst(A.Index(V("ys"), I(0)), A.Index(V("ys"), I(1)))), pr(S("built")),
            A.Declare(V("q"), A.obj(("self", A.Null()))), A.Assign(A.Prop(V("q"), "self", False), V("q")), A.Assign(A.ObjectE([A.Pair(S("self"), A.Prop(V("q"), "other", False))]), V("q")),
            pr(A.Bin("===", A.Prop(V("q"), "other", False), V("q"))),
            A.Assign(A.ListE([(A.Index(V("xs"), I(2)), False), (V("tail"), False)], True), V("xs")) if False else A.Declare(A.ListE([(V("h"), False), (V("tail"), False)], True), V("xs")), pr(V("tail")),
            A.For(A.lst(V("i"), A.Index(V("xs"), I(0))), A.lst(I(7), I(8)), []), pr(V("xs"))]


def hosted(_n, okname, position):
    """an ordinary succeeding operation evaluated in one of the 55 expression hosts (failgen.place), inside a statement context and a call chain"""
    from . import failgen as F
    h = int(__import__("hashlib").sha1(("%s/%s" % (okname, position)).encode()).hexdigest()[:8], 16)
    kind = okname[5:] if okname.startswith("fail:") else "ok:" + okname
    prog, meta = F.generate(h, kind=kind, position=position, ctx=F.CONTEXTS[h % len(F.CONTEXTS)], depth=(0, 0, 1, 2)[(h >> 4) % 4])
    return prog


def fail_props(kind):
    """which properties a failing expression kind of failgen belongs to"""
    table = [(("overflow", "div_zero", "mod_zero"), "C06 C16"), (("op_types", "eq_types", "eq_funcs"), "C16 C10"),
             (("list_oob", "str_oob", "neg_index", "index_type", "not_indexable", "range_", "not_range"), "C11 C16"), (("prop_missing", "key_type", "prop_name", "prop_on"), "C12 C16"),
             (("collect_", "spread_", "shorthand"), "C13 C16"), (("call_", "arity", "too_few", "print_", "len_args", "type_args", "type_fn"), "C14 C16"),
             (("interp_", "print_invalid", "len_invalid"), "C15"), (("undefined",), "C20 C04")]
    for prefixes, props in table:
        if kind.startswith(prefixes):
            return props
    return ""


def elseif_dup(n):
    """several arms test the same literal: the first one that matches runs"""
    half = n // 2 + 1
    arms = [(A.Bin("==", V("sel"), I(j % half)), [pr(S("arm %d" % j))]) for j in range(n + 1)]
    st = [A.FuncStmt("pick", [V("sel")], False, [A.If(arms, [pr(S("else"))]), A.Return(V("sel"))])]
    for sel in sorted({0, half - 1, half // 2, half}):
        st.append(pr(A.call("pick", I(sel))))
    return st


def chain_error(n, kind):
    """a left-to-right chain of n+1 operands in which exactly one `+` fails"""
    k = {"type_mid": n // 2, "type_last": n, "type_first": 1, "overflow_first": 1, "overflow_last": n}[kind] if n else 0
    ops = [I(1) for _ in range(n + 1)]
    if n == 0:
        return [pr(S("before")), pr(A.Bin("+", I(1), S("s"))), pr(S("WRONG"))]
    if kind.startswith("type"):
        ops[k] = S("s")
    elif kind == "overflow_first":
        ops[0] = I(2 ** 63 - 1)
        ops[n] = I(-5)
    else:
        ops[0] = I(2 ** 63 - 1 - (n - 1))
    e = ops[0]
    for x in ops[1:]:
        e = A.Bin("+", e, x)
    return [pr(S("before")), pr(e), pr(S("WRONG"))]


def chain_assoc(n, shift):
    """a `+` chain that is fine when summed from the left but overflows under any other grouping of neighbours"""
    h = 2 ** 62
    ops = ([0] * shift + [-h, -h, h, h] * (n // 4 + 2))[: n + 1]
    e = I(ops[0])
    for x in ops[1:]:
        e = A.Bin("+", e, I(x))
    s = S("a")
    for j in range(n):
        s = A.Bin("+", s, S("abc"[j % 3]))
    return [pr(e), pr(s), A.Declare(V("r"), A.clone(e)), pr(V("r"))]


def chain_mixed(n, tier):
    """a long chain over all operators of one tier: evaluated strictly left to right"""
    rng = random.Random(n * 7 + tier)
    opsets = {3: ["+", "-"], 4: ["*", "/", "%", "*", "/"], 2: ["&&", "||"]}[tier]
    if tier == 2:
        e = A.Bool(True)
        for _ in range(n):
            e = A.Bin(rng.choice(opsets), e, A.Bool(rng.random() < 0.5))
        return [pr(e)]
    e = I(rng.randrange(1, 10 ** 6))
    for _ in range(n):
        op = rng.choice(opsets)
        e = A.Bin(op, e, I(rng.randrange(1, 50) if op != "*" else rng.randrange(1, 1000)))
    return [pr(S("before")), pr(e), pr(S("after"))]


def deep_parens(n):
    p = I(7)
    for _ in range(n):
        p = A.Paren(p)
    q = A.lst(I(1))
    for _ in range(n):
        q = A.lst(q)
    ix = V("q")
    for _ in range(n):
        ix = A.Index(ix, I(0))
    blk = [pr(S("innermost"))]
    for j in range(n):
        blk = [A.Block(blk)] if j % 2 else [A.If([(A.Bool(True), blk)], None)]
    return [pr(A.Bin("*", p, I(2))), A.Declare(V("q"), q), pr(A.Index(ix, I(0)))] + blk + [pr(S("after"))]


def big_text(n, ch, phase, where):
    """a long run of one multi-byte character, shifted by `phase` bytes, in a comment or in a string literal"""
    run = ch * (n // len(ch.encode("utf-8")))
    if where == "interp":
        return [A.Declare(V("a"), S("<A>")), A.Declare(V("s"), A.IStr(["x" * phase + run, V("a"), "|", V("a")])), pr(A.Call(A.Prop(V("s"), "len", True), [])),
                pr(A.RangeIndex(V("s"), I(len(("x" * phase + run).encode("utf-8"))), None)), pr(A.IStr(["x" * phase + run, V("nope")])), pr(S("WRONG"))]
    if where == "literal":
        return [A.Declare(V("s"), S("x" * phase + run)), pr(A.Call(A.Prop(V("s"), "len", True), [])), pr(A.Bin("==", A.RangeIndex(V("s"), None, I(phase)), S("x" * phase))),
                pr(A.Bin("==", V("s"), A.Bin("+", S("x" * phase), S(run)))), pr(A.Bin("+", V("s"), A.Null())), pr(S("WRONG"))]
    return [A.Declare(V("a"), I(1)), pr(V("a")), pr(A.Bin("+", V("a"), A.Null())), pr(S("WRONG"))]


def chain_ops(n):
    def chain(op, first, rest):
        e = first
        for r in rest:
            e = A.Bin(op, e, r)
        return e
    st = [pr(chain("+", I(1), [I(1) for _ in range(n)])), pr(chain("-", I(1000), [I(1) for _ in range(n)])),
          A.Declare(V("t"), A.Bool(True)), pr(chain("&&", V("t"), [V("t") for _ in range(n)])), pr(chain("+", S(""), [S("ab"[j % 2]) for j in range(n)])),
          pr(chain("+", A.lst(), [A.lst(I(j)) for j in range(n)]))]
    e = I(0)
    for j in range(n):
        e = A.Bin("+", e, A.Bin("*", I(j % 5), I(2))) if j % 2 else A.Bin("-", e, A.Bin("/", I(j), I(3)))
    st.append(pr(e))
    p = I(7)
    for _ in range(n):
        p = A.Paren(p)
    st.append(pr(A.Bin("*", p, I(2))))
    return st


def postfix_chain(d):
    inner = A.obj(("tag", S("leaf")), ("who", A.FuncE([], False, [A.Return(A.Prop(V("this"), "tag", False))])))
    for j in range(d):
        inner = A.obj(("tag", S("level %d" % j)), ("a", inner), ("who", A.FuncE([], False, [A.Return(A.Prop(V("this"), "tag", False))])))
    e = V("o")
    for _ in range(d):
        e = A.Prop(e, "a", False)
    e2 = V("o")
    for _ in range(d):
        e2 = A.Index(e2, S("a"))
    return [A.Declare(V("o"), inner), pr(A.Call(A.Prop(e, "who", False), [])), pr(A.Call(A.Prop(V("o"), "who", False), [])), pr(A.Prop(e2, "tag", False))]


def int_ladder(_n):
    st = [A.Declare(V("p"), I(1))]
    for k in range(0, 63):
        lit = 1 << k
        st += [pr(A.Bin("==", V("p"), I(lit))), pr(A.Bin("-", V("p"), I(1))), pr(A.Bin("-", I(0), V("p"))), pr(A.Bin("<", A.Bin("-", V("p"), I(1)), V("p"))),
               pr(A.Bin("/", V("p"), I(3))), pr(A.Bin("%", V("p"), I(7))), pr(A.Bin("+", I(lit - 1), I(lit // 2 + 1) if k else I(0)))]
        if k < 62:
            st += [pr(A.Bin("+", V("p"), I(1))), A.OpAssign("*", V("p"), I(2))]
    st += [pr(V("p")), pr(A.Bin("+", A.Bin("-", V("p"), I(1)), V("p"))), pr(S("overflow next")), pr(A.Bin("*", V("p"), I(2))), pr(S("WRONG"))]
    return st


def many_names(n, end):
    st = [A.Declare(V("n%d" % j), I(j)) for j in range(n)]
    st += [A.FuncStmt("total", [], False, [A.Declare(V("t"), I(0))] + [A.OpAssign("+", V("t"), V("n%d" % j)) for j in range(n)] + [A.Return(V("t"))]), pr(A.call("total"))]
    if end == "redeclare" and n > 0:
        st += [A.Declare(V("n%d" % (n // 2)), I(0)), pr(S("WRONG"))]
    elif end == "redeclare_last" and n > 0:
        st += [A.Declare(A.lst(V("fresh"), V("n%d" % (n - 1))), A.lst(I(1), I(2))), pr(S("WRONG"))]
    elif end == "undefined":
        st += [pr(V("n%d" % n)), pr(S("WRONG"))]
    elif end == "interleaved":
        # reads and writes at every scope size on the way up (names are declared in an order that is not alphabetical)
        st = []
        for j in range(n):
            st.append(A.Declare(V("n%d" % j), I(j)))
            st += [pr(A.Bin("+", A.Bin("+", V("n%d" % j), V("n%d" % (j // 2))), V("n0"))), A.OpAssign("+", V("n%d" % (j // 3)), I(100))]
        st += [pr(V("n%d" % j)) for j in range(0, n, max(1, n // 8))]
    else:
        st += [A.Block([A.Declare(V("n%d" % j), I(-j)) for j in range(0, n, 3)] + [pr(A.call("total"))] + ([pr(V("n0"))] if n else []))]
    return st


def long_ident(n, end):
    name = ("v" + "abcdefghij_0123456789XYZ" * (n // 24 + 1))[: max(1, n)]
    other = name[:-1] + ("y" if name[-1] != "y" else "z") if len(name) > 1 else "q"
    st = [A.Declare(V(name), I(5)), pr(V(name)), A.OpAssign("+", V(name), I(1)), pr(V(name)), A.FuncStmt(name + "_f", [V(name)], False, [A.Return(V(name))]),
          pr(A.call(name + "_f", S("arg"))),
          A.Declare(V("ob"), A.ObjectE([A.Single(V(name), False, False), A.Pair(S(other), I(-1))])), pr(A.Prop(V("ob"), name, False)), pr(A.Index(V("ob"), S(name))), pr(A.Prop(V("ob"), other, False)),
          A.Assign(A.Prop(V("ob"), name, False), I(77)), pr(A.Index(V("ob"), S(name))), A.Declare(A.ObjectE([A.Single(V(name + "_f" if False else other), False, False)]), V("ob")), pr(V(other)), pr(V("ob"))]
    if end == "undefined":
        st += [pr(V(other)), pr(S("WRONG"))]
    elif end == "redeclare":
        st += [A.Declare(V(name), I(1)), pr(S("WRONG"))]
    return st


def far_error(n, kind):
    """a small failing program; the layout (see build_case) pushes it n lines down / n columns right"""
    fail = {"binop": lambda: A.Bin("+", V("a"), A.Null()), "undefined": lambda: V("missing"), "index": lambda: A.Index(A.lst(I(1)), I(4)),
            "call": lambda: A.call("f", I(1), I(2))}[kind]
    return [A.Declare(V("a"), I(1)), A.FuncStmt("f", [V("q")], False, [A.Return(A.Bin("+", V("q"), fail() if kind != "call" else I(1)))]), pr(S("before")),
            pr(A.call("f", I(2))) if kind != "call" else pr(fail()), pr(S("WRONG"))]


def many_stmts(n):
    st = [A.Declare(V("acc"), I(0))]
    for j in range(n):
        st.append(A.OpAssign("+", V("acc"), I(j)) if j % 4 else pr(A.Bin("+", V("acc"), I(j))))
    return st + [pr(V("acc")), pr(A.Bin("+", V("acc"), A.Null())), pr(S("WRONG"))]


def eq_large(n):
    a = [[j] if j % 3 == 1 else ({"k": j} if j % 3 == 2 else j * 3) for j in range(n)]
    st = [A.Declare(V("a"), A.lit(a)), A.Declare(V("b"), A.lit(a)), pr(A.Bin("==", V("a"), V("b"))), pr(A.Bin("!=", V("a"), V("b"))), pr(A.Bin("===", V("a"), V("b"))),
          pr(A.Bin("==", V("a"), A.Bin("+", V("b"), A.lst(I(0)))))]
    if n > 0:
        st += [A.Assign(A.Index(V("b"), I(n - 1)), I(-1)), pr(A.Bin("==", V("a"), V("b"))), A.Assign(A.Index(V("b"), I(n - 1)), A.lit(a[-1])), pr(A.Bin("==", V("a"), V("b"))),
               A.Assign(A.Index(V("b"), I(n // 2)), S("s")), pr(S("mixed next")), pr(A.Bin("==", V("a"), V("b")))]
    o = dict((key(j), j) for j in range(n))
    st2 = [A.Declare(V("p"), A.obj(*[(key(j), I(j)) for j in perm(n)])), A.Declare(V("q"), A.lit(o)), pr(A.Bin("==", V("p"), V("q")))]
    if n > 0:
        st2 += [A.Assign(A.Index(V("q"), S(key(n - 1))), I(-1)), pr(A.Bin("==", V("p"), V("q"))), pr(A.Bin("!=", V("p"), V("q")))]
    return st2 + st


def alias_many(n):
    st = [A.Declare(V("a"), A.lst(I(0))), A.Declare(V("xs"), A.lst())] + loop("i", n, [A.OpAssign("+", V("xs"), A.lst(V("a")))])
    st += [A.Assign(A.Index(V("a"), I(0)), I(7)), A.Declare(V("hit"), I(0)), A.Declare(V("same"), I(0)),
           A.For(A.lst(V("_"), V("e")), V("xs"), [A.OpAssign("+", V("hit"), A.Index(V("e"), I(0))), A.If([(A.Bin("===", V("e"), V("a")), [A.OpAssign("+", V("same"), I(1))])], None)]),
           pr(V("hit")), pr(V("same")), A.Declare(V("cp"), A.RangeIndex(V("xs"), None, None))]
    if n > 0:
        st += [A.Assign(A.Index(A.Index(V("cp"), I(n - 1)), I(0)), I(9)), pr(V("a")), A.Assign(A.Index(V("cp"), I(0)), A.lst(I(1))), pr(A.Index(V("xs"), I(0)))]
    return st


def spread_args(n):
    return [A.Declare(V("xs"), A.lst(*[I(j) for j in range(n)])), A.Declare(V("ys"), A.lst(*[S("s%d" % j) for j in range(n)])),
            A.FuncStmt("g", [V("r")], True, [A.Return(V("r"))]), A.Declare(V("all"), A.Call(V("g"), [(V("xs"), True), (S("mid"), False), (V("ys"), True)]))] + \
        counted("all", V("all")) + [pr(A.Index(V("all"), I(n))), pr(A.Index(V("all"), I(2 * n))) if n else pr(S("-")), pr(V("all")),
                                    A.FuncStmt("h", [V("a"), V("b"), V("r")], True, [pr(V("a")), pr(V("b")), A.Return(V("r"))])] + \
        counted("hr", A.Call(V("h"), [(V("xs"), True), (V("ys"), True), (I(1), False), (I(2), False)]))


def for_object_literal(n):
    """`for` over an object literal written in place (entries out of order, names repeated)"""
    order = perm(n)
    ents = [(key(j % (n // 2 + 1)), I(pos)) for pos, j in enumerate(order)]
    return [A.For(A.lst(V("k"), V("v")), A.obj(*ents), [pr(V("k")), pr(V("v"))]), pr(A.obj(*[(k_, A.clone(v_)) for k_, v_ in ents]))]


def for_object_large(n):
    return [A.Declare(V("o"), A.obj(*[(key((j * 37) % max(1, n)) + ("" if j < n else "x"), I(j)) for j in perm(n)])),
            A.Declare(V("prev"), S("")), A.Declare(V("sorted"), A.Bool(True)), A.Declare(V("c"), I(0)),
            A.For(A.lst(V("k"), V("_")), V("o"), [A.OpAssign("+", V("c"), I(1)), A.Assign(V("prev"), V("k")), pr(V("k"))]), pr(V("c")), pr(V("prev")), pr(V("o"))]



def prefix_keys(_n):
    ks = ["", "a", "ab", "abc", "abcd", "abd", "b", "B", "A", "aB", "a b", "a_b", "a-b", "len", "type", "this", "_", "print", "0", "1", "10", "2", "02", "é", "e", "éa", "z", "~", " ", "k0001", "k0010", "k001"]
    order = list(range(len(ks)))
    random.Random(5).shuffle(order)
    st = [A.Declare(V("o"), A.obj(*[(ks[j], I(j)) for j in order])), pr(V("o")), A.For(A.lst(V("k"), V("v")), V("o"), [pr(A.Bin("+", A.Bin("+", S("<"), V("k")), S(">"))), pr(V("v"))])]
    for j, k in enumerate(ks):
        st.append(pr(A.Index(V("o"), S(k))))
    st += [A.Declare(V("o2"), A.obj())]
    for j in reversed(order):
        st.append(A.Assign(A.Index(V("o2"), S(ks[j])), I(j)))
    st += [pr(A.Bin("==", V("o"), V("o2"))), A.Declare(A.ObjectE([A.Pair(S("a"), V("pa")), A.Pair(S("ab"), V("pab")), A.Single(V("others"), False, True)]), V("o")), pr(V("pa")), pr(V("pab")), pr(V("others")),
           A.Assign(A.Index(V("o2"), S("ab")), I(-1)), pr(A.Bin("==", V("o"), V("o2"))), pr(A.Index(V("o2"), S("a"))), pr(A.Index(V("o2"), S("abc"))),
           pr(A.ObjectE([A.Pair(S("ab"), I(100)), A.Single(V("o2"), True, False), A.Pair(S("a"), I(200))])), pr(S("missing next")), pr(A.Index(V("o"), S("abcde"))), pr(S("WRONG"))]
    return st


def special_bytes(_n):
    vals = ["\x00", "a\x00b", "\x7f", "\xff", "\r", "\t", "\r\n", " ", "'", '"', "\\", "$", "${", "}", "#", ";", "\u2028", "\ufeff", "a\u0301", "\U0001F600", "\x00\x00"]
    st = []
    for j, v in enumerate(vals):
        n = "s%d" % j
        nb = len(v.encode("utf-8"))
        st += [A.Declare(V(n), S(v)), pr(A.Call(A.Prop(V(n), "len", True), [])), pr(A.Bin("==", A.Bin("+", V(n), V(n)), S(v + v))), pr(A.Bin("==", V(n), S(v + "x"))),
               pr(A.Bin("==", A.RangeIndex(A.Paren(A.Bin("+", A.Bin("+", S("[é"), V(n)), S("]"))), I(3), I(3 + nb)), V(n))),
               pr(A.Index(A.obj((v, I(j)), (v + v, I(-j))), V(n))), pr(A.IStr(["<", V(n), ">"])), pr(A.lst(V(n), A.obj((v, V(n)))))] + counted(n, V(n))
    # all values are distinct: no two compare equal, alone or inside containers; a trailing / leading NUL or space matters
    st += [A.Declare(V("all"), A.lst(*[V("s%d" % j) for j in range(len(vals))])), A.Declare(V("eqs"), I(0))]
    st += [A.For(A.lst(V("i"), V("p")), V("all"), [A.For(A.lst(V("j"), V("q")), V("all"), [
        A.If([(A.Bin("==", V("p"), V("q")), [A.OpAssign("+", V("eqs"), I(1))])], None),
        A.If([(A.Bin("==", A.lst(V("p")), A.lst(V("q"))), [A.OpAssign("+", V("eqs"), I(1))])], None)])]), pr(V("eqs"))]
    for base in ("", "a", "ab", "abcdefg", "abcdefgh", "abcdefghi", "é"):
        for extra in ("\x00", " ", "\x00\x00"):
            st += [pr(A.Bin("==", S(base), S(base + extra))), pr(A.Bin("==", S(extra + base), S(base))), pr(A.Bin("!=", A.obj(("k", S(base + extra))), A.obj(("k", S(base)))))]
    return st


def repeated_values(_n):
    st = [A.Declare(V("x"), A.lst(I(1))), A.Declare(V("xs"), A.lst(V("x"), V("x"), V("x"))), A.Declare(A.lst(V("p"), V("q"), V("r")), V("xs")),
          A.Assign(A.Index(V("p"), I(0)), I(2)), pr(V("xs")), pr(A.Bin("===", V("q"), V("r"))), pr(A.Bin("==", A.lst(V("x"), V("x")), A.lst(A.lst(I(2)), V("x")))),
          pr(A.obj(("k", I(1)), ("k", I(2)), ("j", I(3)), ("k", I(4)))), pr(A.Bin("==", A.obj(("a", I(1)), ("a", I(2))), A.obj(("a", I(2))))),
          A.FuncStmt("f", [V("a"), V("b"), V("c")], False, [A.Return(A.lst(V("a"), V("b"), V("c")))]), pr(A.call("f", V("x"), V("x"), V("x"))),
          pr(A.Bin("+", V("xs"), V("xs"))), pr(A.ListE([(V("xs"), True), (V("xs"), True)], False)), pr(A.ObjectE([A.Single(V("oo"), True, False), A.Single(V("oo"), True, False)]) if False else S("-")),
          A.Declare(V("s"), S("abab")), pr(A.Bin("==", A.RangeIndex(V("s"), I(0), I(2)), A.RangeIndex(V("s"), I(2), I(4)))), pr(A.Bin("==", A.Index(V("s"), I(0)), A.Index(V("s"), I(2)))),
          pr(A.Bin("-", V("n7"), V("n7")) if False else A.Bin("-", I(7), I(7))), A.Declare(V("n"), I(7)), pr(A.Bin("-", V("n"), V("n"))), pr(A.Bin("/", V("n"), V("n"))), pr(A.Bin("%", V("n"), V("n"))),
          pr(A.Bin("==", V("n"), V("n"))), pr(A.Bin("<", V("n"), V("n"))), pr(A.Bin("<=", V("n"), V("n"))), pr(A.Bin("*", V("n"), V("n"))),
          A.Declare(V("e"), A.lst()), pr(A.lst(V("e"), A.lst(V("e")), A.obj(), S(""), V("e"))), pr(A.Bin("+", A.Bin("+", V("e"), V("e")), A.lst(V("e")))), pr(A.Bin("==", V("e"), A.lst())),
          pr(A.Bin("===", V("e"), A.lst())), pr(A.ListE([(V("e"), True), (I(1), False), (V("e"), True)], False)), pr(A.RangeIndex(V("e"), I(0), I(0))), pr(A.RangeIndex(S(""), None, None)),
          pr(A.Bin("+", A.Bin("+", S(""), S("")), S("")))] + counted("empty", V("e")) + counted("emptys", S("")) + counted("emptyo", A.obj())
    return st



def repeat_calls(n):
    """the same call sites evaluated n times with changing arguments, captured state and callee"""
    return [A.Declare(V("off"), I(0)), A.FuncStmt("f", [V("a")], False, [A.Return(A.Bin("+", A.Bin("*", V("a"), I(2)), V("off")))]),
            A.FuncStmt("g", [V("a")], False, [A.Return(A.Bin("-", I(0), V("a")))]), A.Declare(V("fs"), A.lst(V("f"), V("g"))),
            A.Declare(V("o"), A.obj(("m", A.FuncE([V("a")], False, [A.Return(A.Bin("+", A.Prop(V("this"), "base", False), V("a")))])), ("base", I(0)))),
            A.Declare(V("acc"), I(0)), A.Declare(V("last"), A.lst())] + \
        loop("i", n, [A.Assign(V("off"), A.Bin("%", V("i"), I(3))), A.Declare(V("h"), A.Index(V("fs"), A.Bin("%", V("i"), I(2)))), A.Assign(A.Prop(V("o"), "base", False), V("i")),
                      A.Assign(V("last"), A.lst(A.call("f", V("i")), A.call("h", V("i")), A.Call(A.Prop(V("o"), "m", False), [(I(1), False)]), A.Bin("+", S("s"), A.Index(S("abc"), A.Bin("%", V("i"), I(3)))),
                                             A.lst(V("i")), A.obj(("i", V("i"))))),
                      A.OpAssign("+", V("acc"), A.Bin("+", A.Bin("+", A.Index(V("last"), I(0)), A.Index(V("last"), I(1))), A.Index(V("last"), I(2))))]) + \
        [pr(V("acc")), pr(V("last"))]


def all_chars(_n):
    cps = [c for c in range(1, 0x180) if c not in (0x22, 0x5c, 0x24, 0x0a, 0x0d)]
    text = "".join(chr(c) for c in cps)
    nb = len(text.encode("utf-8"))
    st = [A.Declare(V("s"), S(text)), pr(A.Call(A.Prop(V("s"), "len", True), [])), pr(A.Bin("==", V("s"), A.Bin("+", A.RangeIndex(V("s"), None, I(127)), A.RangeIndex(V("s"), I(127), None))))] + counted("s", V("s"))
    st += [A.Declare(V("o"), A.obj(*[(chr(c), I(c)) for c in cps[::-1]])), A.Declare(V("prev"), I(0)), A.Declare(V("asc"), I(0)),
           A.For(A.lst(V("_"), V("v")), V("o"), [A.If([(A.Bin(">", V("v"), V("prev")), [A.OpAssign("+", V("asc"), I(1))])], None), A.Assign(V("prev"), V("v"))]), pr(V("asc"))]
    st += [pr(A.Index(V("o"), S(chr(c)))) for c in (1, 0x7f, 0x80, 0xff, 0x100, 0x17f)]
    st += [pr(A.Bin("==", A.Index(V("s"), I(k)), S(chr(cps[k])))) for k in (0, 64, 120)]
    return st


ENTRIES = {
    # name: (properties, builder(n, *extra), variants, max size, case options)
    "list_grow": ("C11 C05 C07 C13", list_grow, [()], 2049, {}),
    "list_literal": ("C11 C03 C08 C10", list_literal, [()], 2049, {}),
    "list_oob": ("C11 C17 C18 C16", list_oob, [("read",), ("write",), ("opassign",), ("range",), ("range_write",)], 1025, {"err": True}),
    "str_grow": ("C11 C15 C07", str_grow, [()], 1025, {}),
    "str_literal": ("C15 C03 C11 C18", str_literal, [()], 2049, {"err": True}),
    "interp_slots": ("C15 C03", interp_slots, [()], 300, {}),
    "obj_literal": ("C12 C10 C19 C13", obj_literal, [()], 1025, {}),
    "obj_insert": ("C12 C19 C07", obj_insert, [()], 513, {}),
    "obj_missing": ("C12 C17 C18", obj_missing, [("index",), ("prop",), ("pattern",), ("opassign",)], 513, {"err": True}),
    "params": ("C13 C14", params, [()], 257, {}),
    "params_arity": ("C13 C14 C17 C16", params_arity, [(1,), (-1,)], 257, {"err": True}),
    "pattern": ("C13 C20", pattern, [()], 300, {"err": True}),
    "nest_list": ("C10 C05 C08 C02 C19", nest_list, [()], 257, {"model_kw": {"max_nest": 600}}),
    "nest_blocks": ("C04 C20 C07", nest_blocks, [()], 129, {}),
    "closures": ("C04 C05", closures, [()], 513, {}),
    "closure_chain": ("C04 C14", closure_chain, [()], 33, {}),
    "recursion": ("C07 C04 C02", recursion, [()], 65, {"model_kw": {"max_depth": 90}}),
    "recursion_error": ("C17 C18 C07", recursion_error, [()], 65, {"err": True, "model_kw": {"max_depth": 90}}),
    "loop_iter": ("C07 C06", loop_iter, [()], 2049, {}),
    "elseif": ("C07 C08", elseif, [("first",), ("last",), ("middle",), ("none",)], 129, {}),
    "elseif_dup": ("C07 C08", elseif_dup, [()], 129, {}),
    "range_assign": ("C11 C05", range_assign, [("list",), ("str",)], 1025, {"err": True}),
    "huge_index": ("C11 C17 C18 C16 C06", huge_index, [(h, f) for h in HUGE for f in ("read", "read_var", "end", "start", "str", "str_end", "write", "range_write", "both")], 0, {"err": True}),
    "obj_dup": ("C12 C19", obj_dup, [()], 513, {}),
    "pattern_dup": ("C13 C20", pattern_dup, [("last",), ("first",), ("mid",), ("last", "assign"), ("mid", "assign"), ("last", "for"), ("last", "param"), ("last", "params"), ("last", "object")], 300, {"err": True}),
    "chain_assoc": ("C08 C06", chain_assoc, [(0,), (1,), (2,), (3,)], 140, {"err": None}),
    "chain_mixed": ("C08 C06 C16", chain_mixed, [(3,), (4,), (2,)], 140, {"err": None}),
    "interp_len": ("C15 C03 C02", interp_len, [()], -1, {"err": True}),
    "slot_parse_errors": ("C15 C17 C02 C18 C03", slot_parse_errors, [(t, w) for t in SLOT_TEXTS for w in ("top", "fn", "second", "never")], 0, {"err": None}),
    "istr_keys": ("C12 C15 C13 C16", istr_keys, [()], 0, {"err": True}),
    "self_targets": ("C13 C02 C05 C12 C11", self_targets, [()], 0, {}),
    "typefn_named_missing": ("C12 C14 C16 C17", typefn_named_missing, [(nm, how) for nm in ("type", "len", "print", "this", "_") for how in ("object", "empty", "nested")], 0, {"err": True}),
    "hosted": ("", hosted, [], 0, {"err": None}),
    "name_coincidence": ("C20 C04 C12 C14", name_coincidence, [()], 0, {}),
    "big_text_interp": ("C15 C03", big_text, [(c, ph, "interp") for c in ("é", "😀", "a") for ph in (0, 1)], -70000, {"err": True}),
    "chain_error": ("C08 C16 C18 C06 C17", chain_error, [("type_mid",), ("type_last",), ("type_first",), ("overflow_first",), ("overflow_last",)], 129, {"err": True}),
    "deep_parens": ("C08 C03 C07 C04", deep_parens, [()], 257, {"model_kw": {"max_nest": 600}}),
    "big_text_comment": ("C09 C03 C15 C18", big_text, [(c, ph, "comment") for c in ("é", "✓", "😀") for ph in range(len(c.encode("utf-8")))], -70000, {"err": True, "bigtext": True}),
    "big_text_literal": ("C15 C03 C09 C11", big_text, [(c, ph, "literal") for c in ("é", "✓", "😀") for ph in range(len(c.encode("utf-8")))], -40000, {"err": True}),
    "chain_ops": ("C08 C06 C16", chain_ops, [()], 65, {}),
    "postfix_chain": ("C08 C14", postfix_chain, [()], 17, {}),
    "int_ladder": ("C06 C16 C19", int_ladder, [()], 0, {"err": True}),
    "many_names": ("C20 C04", many_names, [("block",), ("redeclare",), ("redeclare_last",), ("undefined",), ("interleaved",)], 513, {"err": None}),
    "range_twice": ("C05 C11 C07", range_twice, [()], 1025, {}),
    "long_ident": ("C03 C20 C09 C17 C04 C12", long_ident, [("ok",), ("undefined",), ("redeclare",)], 2049, {"err": None}),
    "far_error_lines": ("C18 C17 C09 C03", far_error, [("binop",), ("undefined",), ("index",), ("call",)], 70000, {"err": True, "far": "lines"}),
    "far_error_cols": ("C18 C17 C09 C03", far_error, [("binop",), ("undefined",), ("index",), ("call",)], 70000, {"err": True, "far": "cols"}),
    "many_stmts": ("C09 C18 C01 C03", many_stmts, [()], 2049, {"err": True, "semi": True}),
    "eq_large": ("C10 C16", eq_large, [()], 1025, {"err": None}),
    "alias_many": ("C05 C11", alias_many, [()], 1025, {}),
    "spread_args": ("C14 C13", spread_args, [()], 257, {}),
    "for_object_large": ("C07 C12 C19", for_object_large, [()], 513, {}),
    "for_object_literal": ("C07 C12 C19", for_object_literal, [()], 129, {}),
    "repeat_calls": ("C14 C04 C05 C07 C19", repeat_calls, [()], 2049, {}),
    "all_chars": ("C15 C03 C12 C11", all_chars, [()], 0, {}),
    # rare values rather than sizes
    "prefix_keys": ("C12 C19 C10 C13 C07", prefix_keys, [()], 0, {"err": True}),
    "special_bytes": ("C15 C11 C03 C12 C10 C19", special_bytes, [()], 0, {}),
    "repeated_values": ("C05 C10 C06 C12 C13 C11", repeated_values, [()], 0, {}),
}
FAR = [0, 1, 254, 255, 256, 257, 300, 65534, 65535, 65536, 65537, 70000]


def sizes_for(name, tier):
    props, fn, variants, mx, opt = ENTRIES[name]
    if opt.get("far"):
        return FAR if tier == "thorough" else [0, 255, 256, 257, 65535, 65536, 65537]
    if mx == 0:
        return [0]
    if mx == -1:
        return list(range(0, 200)) + [255, 256, 257, 320, 511, 512, 513] if tier == "quick" else list(range(0, 1100))
    if mx < 0:
        return [-mx] if tier == "quick" else [-mx, -mx // 2 + 1, -mx + 4099]
    ladder = THOROUGH if tier == "thorough" else QUICK
    return [n for n in ladder if n <= mx]


DIAG_PROPS = {"C03", "C09", "C16", "C17", "C18", "C20"}     # checks whose property speaks about diagnostics: position, atoms and stack are judged too


def descs_for(prop, tier):
    from . import core
    rng = core.rng_for(prop + "/scale")
    out = []
    for name, (props, fn, variants, mx, opt) in ENTRIES.items():
        if name == "hosted":
            from . import failgen as F
            for okname, (_, okprops) in F.EXPR_OK.items():
                if prop in ("C01", "C02", "C17", "C18") or prop in okprops.split():
                    for position in F.POSITIONS:
                        out.append(("scale", name, 0, (okname, position), prop))
            # ... and the failing expressions of failgen in every host, for the properties they belong to (C17 and C18 enumerate them themselves)
            for kind in F.EXPR_FAIL:
                if prop in ("C01", "C02") or prop in fail_props(kind).split():
                    for position in F.POSITIONS:
                        if not (kind.startswith("interp_slot") and position.startswith(("slot", "obj_name_slot"))):
                            out.append(("scale", name, 0, ("fail:" + kind, position), prop))
            continue
        if prop not in ("C01", "C02", "C17") and prop not in props.split():       # C17: "a successful script writes nothing to stderr", a failing one exactly one diagnostic: every entry
            continue
        sizes = list(sizes_for(name, tier))
        if mx > 1:
            # plus sizes drawn from VERIF_SEED, so that different seeds probe different thresholds
            sizes += [rng.randrange(0, mx + 1) for _ in range(4 if tier == "quick" else 24)]
        for n in sorted(set(sizes)):
            for v in variants:
                if (name == "params_arity" and n + v[0] < 0) or (name == "chain_error" and n == 1 and v[0] == "overflow_first"):
                    continue
                out.append(("scale", name, n, v, prop))
    return out


def build_case(desc):
    import sys
    if sys.getrecursionlimit() < 20000:
        sys.setrecursionlimit(20000)       # nesting ladders go to depth 257; printer and model recurse a few frames per level
    _, name, n, v, prop = desc
    props, fn, variants, mx, opt = ENTRIES[name]
    prog = fn(n, *v)
    case = {"prog": prog, "tags": ["scale:%s" % name, "scale-n:%d" % n],
            "model_kw": dict({"fuel": 3000000, "max_size": 1 << 20, "max_out": 1 << 22}, **opt.get("model_kw", {})), "meta": {"scale": name, "n": n, "variant": v}}
    if opt.get("err", False) is not None:
        case["expect_error"] = bool(opt.get("err", False))       # the catalogue's own expectation guards the generator: a disagreement with the model is counted as a discard
    if prop in DIAG_PROPS:
        case.update({"check_pos": True, "check_atoms": True, "check_diag": True})
    if opt.get("bigtext"):
        case["layout"] = P.Layout(lead="#" + "x" * v[1] + v[0] * (n // len(v[0].encode("utf-8"))) + "\n")
    if opt.get("far") == "lines":
        case["layout"] = P.Layout(lead=("\n" if n % 2 else "\r\n") * n if n < 1000 else "\n" * n)
    elif opt.get("far") == "cols":
        case["layout"] = P.Layout(lead=" " * n, p_semi=1.0, compact=True, indent=False)
    elif opt.get("semi"):
        case["layout"] = P.Layout(seed=n, p_semi=0.5)
    return case


def run(rep, prop, tier):
    """Run the catalogue entries that concern `prop`; returns the number judged."""
    descs = descs_for(prop, tier)
    before = rep.evaluations
    opts = {"oracle": "model-differential at sizes around powers of two", "check_format": prop in DIAG_PROPS}
    if prop != "C02":
        harness.run_cases(rep, "seedverif.scale", descs, opts, chunksize=1)
    else:
        # C02 speaks about crashes and hangs only: other disagreements with the model are not its business
        from . import core
        for res in core.pool().imap_unordered(harness._worker, [("seedverif.scale", d, opts) for d in descs], chunksize=1):
            rep.evaluations += 1
            rep.process_runs += res["runs"]
            if res["discard"]:
                rep.discards += 1
                continue
            if res["inconclusive"]:
                rep.note_inconclusive(res["inconclusive"][:300], {"desc": repr(res["desc"])[:200]})
                continue
            for t in res.get("tags", []):
                rep.tally("tags", t)
            if res.get("sha"):
                rep.distinct.add(res["sha"])
            for sig, what, case in res["viol"]:
                if sig.endswith("/crash") or "does not terminate" in what:
                    rep.violation("crash/scale", what, case)
    rep.cov["scale_cases"] = rep.evaluations - before
    rep.extra["scale_ladder"] = "entries %s at sizes %s" % (sorted({d[1] for d in descs}), sorted({d[2] for d in descs}))
    return rep.evaluations - before
